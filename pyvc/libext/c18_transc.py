"""C18 extension: A-TRANSC facts about exp / log / ** over the reals (trusted, listed as assumptions).

Only active when `ENABLED` is set (contracts/c18_mdcev.py sets it; every ./check run is one
property in one process), so other properties see the stock LIBSPEC.

All facts are GROUND instances, added at each application of numpy.exp / numpy.log / ** met in
the code or in a specification (no quantifiers, no matching loops):

  E1  exp(x) > 0                                   (stock)
  E2  log(exp(x)) == x
  E4  exp(c1*m1 + ... + cn*mn) == prod_i exp(|ci|*mi)^(sign ci)      (sum rule, n-ary; the argument is
      expanded into monomials over its non-arithmetic sub-terms; includes exp(-t) == 1/exp(t))
  E5  exp(ite(c, A, B)) == ite(c, exp(A), exp(B))
  L1  x > 0  ->  exp(log(x)) == x
  P1  b > 0  ->  b ** c == exp(c * log(b))         (with E1, E2, L1 for the new terms)

`numpy.isclose` is a pure uninterpreted predicate.
"""
from __future__ import annotations

import ast
from fractions import Fraction

import z3

from pyvc import lib
from pyvc.vals import BOOL, R, Val, as_real, uf, v_real

ENABLED = False
MAX_MONOMIALS = 10

lib.PURE_LIB.setdefault('numpy.isclose', BOOL)


def EXP(x):
    return uf('numpy.exp$R', R, R)(x)


def LOG(x):
    return uf('numpy.log$R', R, R)(x)


def _is(t, kind):
    return z3.is_app(t) and t.decl().kind() == kind


def _rat(t):
    t = z3.simplify(t)
    if z3.is_rational_value(t):
        return Fraction(t.numerator_as_long(), t.denominator_as_long())
    return None


def _poly(t, atoms: dict) -> dict | None:
    """t as {monomial (sorted tuple of atom ids): coefficient}; None when too large."""
    c = _rat(t) if (z3.is_rational_value(t) or z3.is_int_value(t)) else None
    if c is not None:
        return {(): c} if c != 0 else {}
    if _is(t, z3.Z3_OP_ADD) or _is(t, z3.Z3_OP_SUB):
        out: dict = {}
        for k, ch in enumerate(t.children()):
            p = _poly(ch, atoms)
            if p is None:
                return None
            sgn = -1 if (_is(t, z3.Z3_OP_SUB) and k > 0) else 1
            for m, cf in p.items():
                out[m] = out.get(m, 0) + sgn * cf
        return {m: cf for m, cf in out.items() if cf != 0} if len(out) <= 4 * MAX_MONOMIALS else None
    if _is(t, z3.Z3_OP_UMINUS):
        p = _poly(t.children()[0], atoms)
        return None if p is None else {m: -cf for m, cf in p.items()}
    if _is(t, z3.Z3_OP_MUL):
        out = {(): Fraction(1)}
        for ch in t.children():
            p = _poly(ch, atoms)
            if p is None:
                return None
            nxt: dict = {}
            for m1, c1 in out.items():
                for m2, c2 in p.items():
                    m = tuple(sorted(m1 + m2))
                    nxt[m] = nxt.get(m, 0) + c1 * c2
            out = {m: cf for m, cf in nxt.items() if cf != 0}
            if len(out) > 4 * MAX_MONOMIALS:
                return None
        return out
    if _is(t, z3.Z3_OP_DIV):
        num, den = t.children()
        d = _rat(den) if z3.is_rational_value(z3.simplify(den)) else None
        if d is not None and d != 0:
            p = _poly(num, atoms)
            return None if p is None else {m: cf / d for m, cf in p.items()}
    atoms[t.get_id()] = t
    return {(t.get_id(),): Fraction(1)}


def _mono_term(m, c: Fraction, atoms):
    """canonical z3 term of |c| * prod(atoms of m)."""
    t = None
    for i in m:
        t = atoms[i] if t is None else t * atoms[i]
    c = abs(c)
    if t is None:
        return z3.RealVal(str(c))
    return t if c == 1 else z3.RealVal(str(c)) * t


def exp_facts(r, x, depth=0) -> list:
    """Ground A-TRANSC facts for r = exp(x)."""
    facts = [r > 0, LOG(r) == x]
    xs = z3.simplify(x)
    if z3.is_app(xs) and xs.decl().name() == 'nv' and xs.num_args() == 1 and _is(xs.arg(0), z3.Z3_OP_ITE):
        c0, a0, b0 = xs.arg(0).children()          # nv(ite(c, a, b)) == ite(c, nv a, nv b)
        xs = z3.If(c0, z3.simplify(Val.nv(a0)), z3.simplify(Val.nv(b0)))
    if _is(xs, z3.Z3_OP_ITE) and depth < 3:
        # exp(ite(c, A, B)) == ite(c, exp A, exp B)
        c, A, B = xs.children()
        facts += [z3.Implies(c, r == EXP(A)), z3.Implies(z3.Not(c), r == EXP(B))]
        return facts + exp_facts(EXP(A), A, depth + 1) + exp_facts(EXP(B), B, depth + 1)
    atoms: dict = {}
    p = _poly(z3.simplify(x), atoms)
    if p is None or len(p) > MAX_MONOMIALS or not p:
        return facts
    items = sorted(p.items())
    if len(items) == 1 and items[0][1] == 1:
        m = items[0][0]
        if len(m) == 1:
            a = atoms[m[0]]
            if z3.is_app(a) and a.decl().name() == 'numpy.log$R':
                z = a.arg(0)
                facts.append(z3.Implies(z > 0, r == z))
        return facts
    prod = z3.RealVal(1)
    for m, c in items:
        t = _mono_term(m, c, atoms)
        e = EXP(t)
        facts.append(e > 0)
        facts.append(LOG(e) == t)
        if len(m) == 1 and abs(c) == 1:
            a = atoms[m[0]]
            if z3.is_app(a) and a.decl().name() == 'numpy.log$R':
                z = a.arg(0)
                facts.append(z3.Implies(z > 0, e == z))
        prod = prod * e if c > 0 else prod / e
    facts.append(r == prod)
    return facts


def log_facts(r, x) -> list:
    return [z3.Implies(x > 0, EXP(r) == x), EXP(r) > 0]


def pow_facts(w, b, c) -> list:
    L = LOG(b)
    t = z3.simplify(c * L)
    e = EXP(t)
    return [z3.Implies(b > 0, w == e), e > 0, LOG(e) == t, z3.Implies(b > 0, EXP(L) == b)] + \
        [f for f in exp_facts(e, t) if True]


def _numeric(v):
    return v.kind in ('int', 'real', 'bool')


@lib.lib_handler('numpy.exp')
def _h_exp(ex, st, args, kwargs, node):
    v = lib.pure_call(ex, st, 'numpy.exp', args, kwargs, lib.PURE_LIB['numpy.exp'])
    if ENABLED and v.kind == 'real' and len(args) == 1 and _numeric(args[0]):
        ex.ctx.note('A-TRANSC exp: exp(x)>0, log(exp x)=x, exp(sum)=prod exp (ground instances)')
        for f in exp_facts(as_real(v), as_real(args[0])):
            st.assume(f)
    return v


@lib.lib_handler('numpy.log')
def _h_log(ex, st, args, kwargs, node):
    v = lib.pure_call(ex, st, 'numpy.log', args, kwargs, lib.PURE_LIB['numpy.log'])
    if ENABLED and v.kind == 'real' and len(args) == 1 and _numeric(args[0]):
        ex.ctx.note('A-TRANSC log: x>0 -> exp(log x)=x (ground instances)')
        for f in log_facts(as_real(v), as_real(args[0])):
            st.assume(f)
    return v


def _install_pow():
    """`**` has no LIBSPEC hook: wrap Executor.binop (inactive unless ENABLED)."""
    from pyvc import symexec
    if getattr(symexec.Executor.binop, '_c18', False):
        return
    orig = symexec.Executor.binop

    def binop(self, st, op, l, r, node):
        v = orig(self, st, op, l, r, node)
        if ENABLED and isinstance(op, ast.Pow) and v.kind == 'real' and v.t is not None:
            w = as_real(v)
            if z3.is_app(w) and w.decl().name() == 'pow' and w.num_args() == 2:
                self.ctx.note('A-TRANSC pow: b>0 -> b**c = exp(c*log b) (ground instances)')
                for f in pow_facts(w, w.arg(0), w.arg(1)):
                    st.assume(f)
        return v
    binop._c18 = True
    symexec.Executor.binop = binop


def enable():
    """called by contracts/c18_mdcev.py (after pyvc is fully imported)"""
    global ENABLED
    ENABLED = True
    _install_pow()
