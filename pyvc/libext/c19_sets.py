"""libext (C19): set iteration axioms, set.discard, copy.deepcopy of a set.

LIBSPEC set iteration (the core only *notes* "arbitrary fixed order, each member once"; here the
facts are actually assumed, for the set being iterated):
  * every enumerated element is a member            0 <= i < n  ->  enum(D, i) in D
  * every member is enumerated (skolem index idx)   x in D -> 0 <= idx(D,x) < n and enum(D, idx(D,x)) == x
  * no element twice                                idx(D, enum(D, i)) == i
LIBSPEC set.discard(x): the membership array with x removed.
LIBSPEC copy.deepcopy(s) for a set of scalars: a fresh set with the same members.
SCOPE: active only while a function of property C19 is verified (ctx.prop == 'C19'); everything else is
delegated to the core unchanged.
"""
import z3

from pyvc import lib, vals as VV
from pyvc.vals import I, V, Val, as_ref, fresh_name, uf, v_none

_DOM = z3.ArraySort(Val, VV.B)


def set_enum_axioms(ex, st, v):
    r = as_ref(v)
    dom = st.set_dom(v)
    n = uf('set_card', I, _DOM, I)(r, dom)
    en = uf('set_enum', _DOM, I, Val)
    idx = uf('set_idx', _DOM, Val, I)
    i = z3.Int(fresh_name('si'))
    x = z3.Const(fresh_name('sx'), Val)
    st.assume(n >= 0)
    st.assume(z3.ForAll([i], z3.Implies(z3.And(i >= 0, i < n),
                                        z3.And(z3.Select(dom, en(dom, i)), idx(dom, en(dom, i)) == i)),
                        patterns=[en(dom, i)]))
    st.assume(z3.ForAll([x], z3.Implies(z3.Select(dom, x),
                                        z3.And(idx(dom, x) >= 0, idx(dom, x) < n, en(dom, idx(dom, x)) == x)),
                        patterns=[z3.Select(dom, x), idx(dom, x)]))
    ex.ctx.note('LIBSPEC set iteration axioms: members <-> enumerated positions (bijection on [0, len))')


_orig_iter_view = lib.iter_view


def _iter_view(ex, st, v, node=None):
    view = _orig_iter_view(ex, st, v, node)
    if v.kind == 'set' and ex.ctx.prop == 'C19':
        set_enum_axioms(ex, st, v)
    return view


lib.iter_view = _iter_view

_orig_set_method = lib.set_method


def _set_method(ex, st, s, name, args, kwargs, node):
    if name in ('discard',) and len(args) == 1 and ex.ctx.prop == 'C19':
        r = as_ref(s)
        st.write(r, '$dom', z3.Store(st.read(r, '$dom'), ex.box(st, args[0]), z3.BoolVal(False)))
        ex.ctx.note('LIBSPEC set.discard: membership array with the element removed')
        return v_none()
    return _orig_set_method(ex, st, s, name, args, kwargs, node)


lib.set_method = _set_method


def _deepcopy(ex, st, args, kwargs, node):
    if len(args) == 1 and args[0].kind == 'set' and ex.ctx.prop == 'C19':
        ex.ctx.note('LIBSPEC copy.deepcopy(set of scalars): fresh set with the same members')
        return st.new_set(args[0].ty.args[0] if args[0].ty.args else VV.ANY, st.set_dom(args[0]))
    return lib.pure_call(ex, st, 'copy.deepcopy', args, kwargs, lib.PURE_LIB['copy.deepcopy'])


lib.LIB_HANDLERS['copy.deepcopy'] = _deepcopy


# --- s.union(*list_of_sets) with a list of unknown length ------------------------------------
import ast as _ast

from pyvc import symexec as _symexec

_orig_e_call = _symexec.Executor._e_Call


def _e_Call(self, st, node):
    f = node.func
    if (self.ctx.prop == 'C19' and isinstance(f, _ast.Attribute) and f.attr == 'union' and len(node.args) == 1 and not node.keywords
            and isinstance(node.args[0], _ast.Starred)):
        recv = self.ev(st, f.value)
        lst = self.ev(st, node.args[0].value)
        if recv.kind == 'set' and lst.kind == 'list' and lst.items is None \
                and lst.ty.args and lst.ty.args[0].kind == 'set':
            n = st.list_len(lst)
            elems = st.list_elems(lst)
            domf = st.field('$dom')
            x = z3.Const(fresh_name('ux'), Val)
            j = z3.Int(fresh_name('uj'))
            member = z3.Exists([j], z3.And(j >= 0, j < n,
                                           z3.Select(z3.Select(domf, Val.rv(z3.Select(elems, j))), x)))
            dom = z3.Lambda([x], z3.Or(z3.Select(st.set_dom(recv), x), member))
            self.ctx.note('LIBSPEC set.union(*sets): x is a member iff it is in the receiver or in one of the sets')
            return st.new_set(lst.ty.args[0].args[0] if lst.ty.args[0].args else VV.ANY, dom)
    return _orig_e_call(self, st, node)


_symexec.Executor._e_Call = _e_Call


# --- set == set compares contents (the core compares references) -------------------------------
_orig_py_eq = _symexec.Executor.py_eq


def _py_eq(self, st, l, r):
    if l.kind == 'set' and r.kind == 'set' and self.ctx.prop == 'C19':
        self.ctx.note('LIBSPEC set == set: same members (extensional)')
        return st.set_dom(l) == st.set_dom(r)
    return _orig_py_eq(self, st, l, r)


_symexec.Executor.py_eq = _py_eq
