"""libext (C05 round 2, deductive builder semantics): expression nodes built INSIDE a comprehension of symbolic length.

SCOPE: active only while a function of property C05 / C06 is verified and contracts/c05c_nodes.py has been loaded
(ENABLED); otherwise the core behaviour is unchanged.

ENGINE  The core allocates ONE fresh reference per constructor call (State.new_ref); inside a comprehension whose length
        is symbolic the element is a term in the bound position j, so an allocation there would give the same object
        for every j.  Here a node K(args) built under a binder is the term mk!K(args) (a reference, function of the
        constructor arguments: distinct positions may give distinct nodes), of class K, and the VERIFIED contract of
        K.__init__ (contracts/c05c_nodes.py) is instantiated at it in logical form: requires become obligations
        (pre@callsite), a `raises` condition must be refutable syntactically, ensures are assumed with `self` seen through
        the abstract value function only (no heap fields of the node are read or written).  Outside binders the core
        path (fresh reference + __init__ contract with its modifies) is used unchanged.
        NamedTuple ConditionalTermTuple(condition, term) under a binder: the term mk!CTT(condition, term) whose two
        fields read back the arguments.
"""
import z3

from pyvc import lib
from pyvc.state import Unsupported
from pyvc.symexec import Frame
from pyvc.vals import TRef, V, Val, uf

import os as _os

ENABLED = False
DROP_ZERO_TAIL = True
PROPS = ('C05', 'C06')


def _mine(ex):
    if ENABLED and ex.ctx.prop in PROPS:
        _patch_discharge()
        return True
    return False


def _is_node_class(ex, ci) -> bool:
    return ex.repo.is_subclass(ci.name, 'Expression')


@lib.hook('construct_special')
def _construct_under_binder(ex, st, ci, args, kwargs, node):
    if not _mine(ex) or st.spec:
        return None
    if not st.bound:
        if ex.repo.is_subclass(ci.name, 'LogLogit'):
            # paths that build different kinds of log-logit nodes are kept apart at joins (see below)
            st.ghost[('c05c-built', ci.name)] = True
        return None
    if ci.name == 'ConditionalTermTuple':
        vals = dict(zip(('condition', 'term'), args))
        vals.update(kwargs)
        if set(vals) != {'condition', 'term'}:
            raise Unsupported('ConditionalTermTuple under a binder: unexpected arguments')
        key = ex.repo.class_key(ci)
        t = uf('mk!ConditionalTermTuple', Val, Val, Val)(ex.box(st, vals['condition']), ex.box(st, vals['term']))
        obj = V(t, TRef(key))
        st.assume(z3.And(Val.is_ref(t), Val.rv(t) >= 0, ex.cls_of(Val.rv(t)) == ex.class_id(key)))
        for f in ('condition', 'term'):
            st.assume(st.read(Val.rv(t), f) == ex.box(st, vals[f]))
        ex.ctx.note('ENGINE c05c: ConditionalTermTuple built under a binder = term mk!CTT(condition, term)')
        return obj
    if not _is_node_class(ex, ci):
        return None
    con = ex.ctx.registry.get(f'{ci.module}.{ci.name}.__init__')
    if con is None:
        raise Unsupported(f'{ci.name}(...) under a binder needs a contract on {ci.name}.__init__')
    fi = ex.repo.function(con.qualname)
    key = ex.repo.class_key(ci)
    caller_locals = st.locals
    st.locals = {}
    fr = Frame(ex.repo.modules[fi.module], fi, depth=ex.frame.depth + 1)
    ex.frames.append(fr)
    try:
        dummy = V(Val.none, TRef(key))
        ex.bind_params(st, fi.node.args, [dummy] + list(args), kwargs, fi)
        env = dict(st.locals)
        names = [a.arg for a in fi.node.args.args if a.arg != 'self']
        boxed = [ex.box(st, env[n]) for n in names]
        t = uf(f'mk!{ci.name}', *([Val] * (len(boxed) + 1)))(*boxed)
        st.assume(z3.And(Val.is_ref(t), Val.rv(t) >= 0, ex.cls_of(Val.rv(t)) == ex.class_id(key)))
        ekey = ex.repo.class_key(ex.repo.find_class('Expression', 'biogeme.expressions.base_expressions'))
        env['self'] = V(t, TRef(ekey))          # abstract view: only c05c_val(self) is meaningful here
        for nme, tsrc in con.types.items():
            if nme in env and env[nme].kind in ('any', 'opt'):
                env[nme] = env[nme].with_ty(ex.ptype(tsrc))
        st.locals = env
        for label, src in con.requires.items():
            g = ex.spec_goal(st, 'pre@callsite', f'{ci.name}.__init__:{label}', src, {}, line=getattr(node, 'lineno', 0))
            st.assume(g)
        for exc, csrc in con.raises.items():
            c = z3.simplify(ex.spec_bool(st, csrc, {}))
            if not z3.is_false(c):
                raise Unsupported(f'{ci.name}(...) under a binder may raise {exc}')
        from pyvc.state import occurs
        for label, src in con.ensures.items():
            fact = ex.spec_bool(st, src, {})
            if not con.requires and not any(occurs(var, fact) for var, _ in st.bound):
                # a closed instance of a total contract (no requires, cannot raise): a property of the term mk!K(args)
                # itself, asserted without the position guard (otherwise the solver must find a witness position)
                st.pc.append(fact)
            else:
                st.assume(fact)
        ex.ctx.note(f'ENGINE c05c: {ci.name}(...) built under a binder = term mk!{ci.name}(args) + contract of {con.qualname}')
        # paths that built different families of nodes are kept apart at joins (State.ghost keys differ: no merge);
        # more paths, never fewer facts
        st.ghost[('c05c-mk', ci.name, getattr(node, 'lineno', 0))] = True
        return V(t, TRef(key))
    finally:
        ex.frames.pop()
        st.locals = caller_locals


# ---- isinstance(x, (A, B, C)) --------------------------------------------------------------------
# ENGINE  the core evaluates the tuple of classes as a value (Val.tup of class objects: crash).  Here the tuple display
#         is taken syntactically: isinstance(x, (A, B)) == isinstance(x, A) or isinstance(x, B)  (Python semantics).
import ast as _ast

from pyvc import symexec as _symexec
from pyvc.vals import v_bool

_orig_e_call = _symexec.Executor._e_Call


def _e_Call(self, st, node):
    f = node.func
    if (_mine(self) and isinstance(f, _ast.Name) and f.id == 'isinstance' and 'isinstance' not in st.locals
            and len(node.args) == 2 and not node.keywords and isinstance(node.args[1], _ast.Tuple)):
        v = self.ev(st, node.args[0])
        res = [lib._isinstance1(self, st, v, self.ev(st, c)) for c in node.args[1].elts]
        return v_bool(z3.simplify(z3.Or(*res)))
    return _orig_e_call(self, st, node)


_symexec.Executor._e_Call = _e_Call


# ---- sum_range: congruence lemma between two sums evaluated in the same state ------------------------
# LEMMA sum-congruence (induction on the upper bound; the companion of the core's sum-zero-tail lemma):
#       if f(q) == g(q) for lo <= q < b then sum_{lo<=q<b} f(q) == sum_{lo<=q<b} g(q).
# The core encodes each sum_range by its own uninterpreted prefix-sum function, so two sums with pointwise equal terms
# written with different lambdas (constructor contract vs textbook formula) are unrelated without this lemma.  It is
# instantiated for every pair of distinct sums with the same lower bound met while evaluating specifications in one
# state, at the upper bounds of both.  The pointwise premise stays a proof obligation of the solver.
_orig_sum_range = lib.SPEC_BUILTINS['sum_range']


def _sum_key(st, lam, lo):
    from pyvc.vals import as_int
    lnode, captured = lam.py[1], lam.py[2]
    free = sorted({n.id for n in _ast.walk(lnode.body) if isinstance(n, _ast.Name)} - {a.arg for a in lnode.args.args})
    cap_ids = tuple((n, captured[n].t.get_id() if (n in captured and captured[n].t is not None) else None) for n in free)
    heap_ids = tuple(sorted((f, a.get_id()) for f, a in (st.heap0 if st.use_old else st.heap).items()
                            if f not in st.heap0 or not a.eq(st.heap0[f])))
    return (_ast.dump(lnode), cap_ids, heap_ids, as_int(lo).get_id())


def _sum_range(ex, st, args, kw, node):
    from pyvc.vals import as_int, as_real, fresh_name, v_int
    n_pc = len(st.pc)
    res = _orig_sum_range(ex, st, args, kw, node)
    if not _mine(ex):
        return res
    if DROP_ZERO_TAIL:
        # the core's sum-zero-tail lemma (two bound variables, multi-pattern over every pair of prefix sums) is not needed
        # by the C05/C06 proofs and makes the solver diverge once several sums are present: dropping a hypothesis is sound
        st.pc[n_pc:] = [h for h in st.pc[n_pc:] if not (z3.is_quantifier(h) and h.is_forall() and h.num_vars() == 2)]
    if st.bound:
        return res
    lam, lo, hi = args
    key = _sum_key(st, lam, lo)
    S = lib._SUMS.get(key)
    if S is None:
        return res
    lo_t, hi_t = as_int(lo), as_int(hi)
    seen = st.ghost.get('c05c-sums', ())
    mine = None
    others = []
    for ent in seen:
        if ent[0] == key:
            mine = ent
        else:
            others.append(ent)
    his = tuple(mine[3]) if mine else ()
    new_hi = not any(h.eq(hi_t) for h in his)
    if new_hi:
        his = his + (hi_t,)
    # each sum is remembered with ITS prefix-sum function and the heap its terms were read in
    me = (key, lam, lo_t, his, S, dict(st.heap0 if st.use_old else st.heap))
    st.ghost['c05c-sums'] = tuple(others) + (me,)
    if not new_hi:
        return res
    done = st.ghost.get('c05c-cong', frozenset())

    def term_at(ent, q):
        saved, saved_old = st.heap, st.use_old
        st.heap = dict(ent[5])
        st.use_old = 0
        try:
            return as_real(ex.call(st, ent[1], [v_int(q)], {}, node))
        finally:
            for f_, a_ in st.heap.items():
                saved.setdefault(f_, a_)
            st.heap, st.use_old = saved, saved_old

    def total(ent, b):
        return z3.If(b > ent[2], ent[4](b), z3.RealVal(0))
    for ent in others:
        if not ent[2].eq(lo_t):
            continue
        for b in (hi_t,) + tuple(ent[3]):
            mark = (key, ent[0], b.get_id())
            if mark in done or (ent[0], key, b.get_id()) in done:
                continue
            done = done | {mark}
            # Skolem form of  (forall q in [lo,b): f1(q) == f2(q)) -> S1(b) == S2(b):  for a FRESH constant q0,
            # (lo <= q0 < b -> f1(q0) == f2(q0)) -> S1(b) == S2(b)   (the witness of a failing premise is named)
            q = z3.Int(fresh_name('cq0'))
            rng = z3.And(q >= lo_t, q < b)
            st.guards.append(rng)
            try:
                f1 = term_at(me, q)
                f2 = term_at(ent, q)
            finally:
                st.guards.pop()
            st.pc.append(z3.Implies(z3.Implies(rng, f1 == f2), total(me, b) == total(ent, b)))
            ex.ctx.note('LEMMA sum-congruence: sums with pointwise equal terms over the same range are equal (induction)')
    st.ghost['c05c-cong'] = done
    return res


lib.SPEC_BUILTINS['sum_range'] = _sum_range


# ---- NamedTuple._replace(**changes) ------------------------------------------------------------------
# LIBSPEC  t._replace(f=v, ...) is a NEW tuple of the same class whose fields are those of t except the named ones.
@lib.hook('ref_method')
def _namedtuple_replace(ex, st, recv, name, args, kwargs, node):
    if not _mine(ex) or name != '_replace' or args or recv.kind != 'ref' or not recv.ty.cls:
        return None
    ci = ex.repo.find_class(recv.ty.cls)
    if ci is None or not any('NamedTuple' in b for b in ci.bases):
        return None
    names = list(ci.field_types)
    if not set(kwargs) <= set(names):
        raise Unsupported('_replace with an unknown field')
    vals = {}
    for n in names:
        vals[n] = kwargs[n] if n in kwargs else ex.get_attr(st, recv, n, node)
    ex.ctx.note('LIBSPEC NamedTuple._replace: new tuple of the same class with the named fields replaced')
    return ex.construct(st, ci, [], vals, node)


@lib.hook('ref_attr')
def _namedtuple_replace_attr(ex, st, obj, name, node):
    if not _mine(ex) or name != '_replace' or obj.kind != 'ref' or not obj.ty.cls:
        return None
    ci = ex.repo.find_class(obj.ty.cls)
    if ci is None or not any('NamedTuple' in b for b in ci.bases):
        return None
    from pyvc.vals import v_py
    return v_py(('bound', obj, name))


# ---- discharge strategy: relevance-filtered attempts first -----------------------------------------------
# ENGINE  The obligations of the builder contracts carry 150-300 hypotheses (type facts and dictionary invariants under
#         binders); z3's E-matching is unstable on them (the same goal is proved in 0.03 s from the 40 most recent
#         hypotheses and times out from all of them).  For C05/C06 obligations the most recent k hypotheses are tried
#         first, then relevance-filtered subsets (all ground hypotheses + the most recent quantified ones that are not
#         mere type invariants; short timeouts).  A proof from a SUBSET of the hypotheses is a proof; when no subset
#         attempt succeeds the core portfolio runs unchanged on the full set.
_patched = [False]


def _patch_discharge():
    if _patched[0]:
        return
    _patched[0] = True
    import time as _time

    from pyvc import verify as _verify
    _orig_discharge = _verify.discharge

    def _type_only(e):
        """a (quantified) fact whose consequents are only datatype testers / is_int: a type invariant under a binder"""
        if z3.is_quantifier(e):
            return e.is_forall() and _type_only(e.body())
        if z3.is_app(e):
            k = e.decl().kind()
            if k == z3.Z3_OP_IMPLIES:
                return _type_only(e.arg(1))
            if k == z3.Z3_OP_AND:
                return all(_type_only(c) for c in e.children())
            if k == z3.Z3_OP_DT_IS or e.decl().name() == 'is_int':
                return True
        return False

    def _discharge(ob, timeout_ms, witness_terms):
        if ENABLED and ob.name.split(':', 1)[0] in PROPS and len(ob.hyps) > 50:
            t0 = _time.time()
            H = ob.hyps
            quant = [h for h in H if _verify.has_quantifier(h)]
            ground = [h for h in H if not _verify.has_quantifier(h)]
            nontype = [h for h in quant if not _type_only(h)]
            plans = [('', H, 1000),
                     (f'(last 40 of {len(H)} hypotheses)', H[-40:], 1500),
                     (f'(last 60 of {len(H)} hypotheses)', H[-60:], 1500),
                     (f'(ground + last 40 quantified non-type hypotheses of {len(H)})', ground + nontype[-40:], 2000),
                     (f'(last 130 of {len(H)} hypotheses)', H[-130:], 2000),
                     (f'(without the {len(quant) - len(nontype)} type-only quantified hypotheses of {len(H)})', ground + nontype, 2500),
                     (f'(last 90 of {len(H)} hypotheses)', H[-90:], 1500),
                     (f'(ground + last 120 quantified non-type hypotheses of {len(H)})', ground + nontype[-120:], 2500)]
            # wall-clock budgets: stretched when the machine is overloaded (shared host), at most sixfold
            try:
                stretch = min(6.0, max(1.0, _os.getloadavg()[0] / (_os.cpu_count() or 1)))
            except OSError:      # pragma: no cover
                stretch = 1.0
            for label, hyps, tmo in plans:
                s = z3.Solver()
                s.set('timeout', int(min(tmo * stretch, timeout_ms)))
                for a in _verify.background_axioms():
                    s.add(a)
                s.add(*hyps)
                s.add(z3.Not(ob.goal))
                try:
                    r = str(s.check())
                except z3.Z3Exception:
                    break
                if r == 'sat' and not label:
                    break          # a counter-model of the full set: let the core portfolio decode it
                if r == 'unsat':
                    return _verify.OblResult(ob.name, ob.kind, 'discharged', f'z3-{z3.get_version_string()}' + label,
                                             round(_time.time() - t0, 4), ob.line, ob.func, ob.note, None, 0)
        return _orig_discharge(ob, timeout_ms, witness_terms)

    _verify.discharge = _discharge


# ---- iteration over an object whose __iter__ is `return iter(self.<field>)` ------------------------------
@lib.hook('ref_iter')
def _iter_delegating(ex, st, v, node):
    if not _mine(ex) or v.kind != 'ref' or not v.ty.cls:
        return None
    fi = ex.repo.resolve_method(v.ty.cls, '__iter__')
    if fi is None:
        return None
    body = [s for s in fi.node.body if not (isinstance(s, _ast.Expr) and isinstance(s.value, _ast.Constant))]
    if len(body) != 1 or not isinstance(body[0], _ast.Return):
        return None
    r = body[0].value
    if not (isinstance(r, _ast.Call) and isinstance(r.func, _ast.Name) and r.func.id == 'iter' and len(r.args) == 1
            and isinstance(r.args[0], _ast.Attribute) and isinstance(r.args[0].value, _ast.Name) and r.args[0].value.id == 'self'):
        return None
    ex.ctx.note(f'ENGINE c05c: iteration over a {v.ty.cls} = iteration over its field {r.args[0].attr} (body of __iter__)')
    inner = ex.get_attr(st, v, r.args[0].attr, node)
    return lib.iter_view(ex, st, inner, node)


# ---- set iteration: the enumeration is a bijection between [0, len) and the members (same LIBSPEC as libext/c19_sets) --
_orig_iter_view = lib.iter_view


def _iter_view(ex, st, v, node=None):
    if v.kind == 'opt' and _mine(ex):
        v = ex.unopt(st, v, node, 'iteration')        # `for x in opt`: obligation safe:none, then the inner value
    view = _orig_iter_view(ex, st, v, node)
    if v.kind == 'set' and _mine(ex):
        from pyvc.libext.c19_sets import set_enum_axioms
        set_enum_axioms(ex, st, v)
    return view


lib.iter_view = _iter_view


# ---- proving context flag (specs/c05c_specs.c05c_cut acts only while a goal is being built) --------------------
_orig_spec_goal = _symexec.Executor.spec_goal


def _spec_goal(self, st, kind, label, src, env, line=0, note='', witness=None):
    prev = getattr(self, 'c05c_proving', 0)
    self.c05c_proving = prev + 1
    try:
        return _orig_spec_goal(self, st, kind, label, src, env, line=line, note=note, witness=witness)
    finally:
        self.c05c_proving = prev


_symexec.Executor.spec_goal = _spec_goal

_orig_spec_eval = _symexec.Executor.spec_eval


def _spec_eval(self, st, src, env):
    con = self.frame.contract if self.frames else None
    is_hint = (isinstance(src, str) and con is not None and self.frame.depth == 0 and src in (con.hints or [])
               and self.ctx.prop in PROPS and ENABLED)
    if not is_hint:
        return _orig_spec_eval(self, st, src, env)
    prev = getattr(self, 'c05c_hint', 0)
    self.c05c_hint = prev + 1          # a hint is evaluated at a return point: cuts inside it are proof steps
    try:
        return _orig_spec_eval(self, st, src, env)
    finally:
        self.c05c_hint = prev


_symexec.Executor.spec_eval = _spec_eval


# ---- `from package import name` where `name` is both a sub-module and a function re-exported by the package ------------
# ENGINE  `from biogeme.models import mev`: the core resolves the dotted path biogeme.models.mev to the MODULE; Python binds
#         the attribute of the package, which its __init__ has rebound to the function (`from .mev import mev`).
_orig_import_target = _symexec.Executor.import_target


def _import_target(self, dotted):
    if ENABLED and self.ctx.prop in PROPS and dotted in self.repo.modules:
        parts = dotted.split('.')
        pkg, last = '.'.join(parts[:-1]), parts[-1]
        mi = self.repo.modules.get(pkg)
        if mi is not None and last in mi.imports and mi.imports[last] != dotted:
            return _orig_import_target(self, mi.imports[last])
    return _orig_import_target(self, dotted)


_symexec.Executor.import_target = _import_target


# ---- element of a key list / view: beta-reduce select(lambda j. e(j), i) at once -------------------------------
# ENGINE  `list(d)[q]`, `keys_of(d)[q]` and views are built as an array lambda applied to the index; the solver
#         beta-reduces such terms lazily, so E-matching misses the instances (proofs about the q-th key timed out or
#         depended on the seed).  In C05/C06 scope the application is reduced when it is built: the same value, a plain term.
import os as _os
_orig_subscript = lib.subscript


def _subscript(ex, st, obj, sl, node):
    v = _orig_subscript(ex, st, obj, sl, node)
    if not _os.environ.get("C05C_NOBETA") and _mine(ex) and v.t is not None and z3.is_app(v.t) and v.t.decl().kind() == z3.Z3_OP_SELECT and z3.is_quantifier(v.t.arg(0)) and v.t.arg(0).is_lambda():
        lam = v.t.arg(0)
        if lam.num_vars() == 1:
            red = z3.substitute_vars(lam.body(), v.t.arg(1))
            v2 = V(red, v.ty)
            return v2
    return v


lib.subscript = _subscript
