"""libext (C19): a module-level *literal* constant imported from another repo module
(`from .sampling_context import LOG_PROBA_COL`) evaluates to that literal.  The core leaves such a
name as an opaque ('modglobal', module, name) object.  SCOPE: active only for property C19 (ctx.prop); only literal constants."""
import ast

from pyvc import symexec

_orig_lookup = symexec.Executor.lookup


def _lookup(self, st, name, node=None):
    v = _orig_lookup(self, st, name, node)
    if self.ctx.prop == 'C19' and v.kind == 'py' and v.py and v.py[0] == 'modglobal':
        mi = self.repo.modules.get(v.py[1])
        g = mi.globals_.get(v.py[2]) if mi is not None else None
        if isinstance(g, ast.Constant) and isinstance(g.value, (str, int, float)) and not isinstance(g.value, bool):
            return self._e_Constant(st, g)
    return v


symexec.Executor.lookup = _lookup
