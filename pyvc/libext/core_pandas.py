"""LIBSPEC-pd (core): the few pandas members used by functions under contract in C01-C04.
Everything here is an ASSUMED contract on a dependency."""
import z3

from pyvc.vals import INT as _INT

from pyvc import lib
from pyvc.state import Unsupported
from pyvc.vals import (ANY, INT, STR, T, TList, V, Val, as_ref, fresh_name, uf, v_int, v_ref)


@lib.hook('ref_attr')
def df_attr(ex, st, obj, name, node):
    if obj.ty.cls == 'DataFrame':
        if name == 'columns':
            r = uf('df_columns', z3.IntSort(), z3.IntSort())(as_ref(obj))
            return v_ref(r, 'PdIndex')
        if name == 'index':
            r = uf('df_index', z3.IntSort(), z3.IntSort())(as_ref(obj))
            return v_ref(r, 'PdIndex')
        if name == 'shape':
            # LIBSPEC-pd: df.shape == (number of rows, number of columns)
            from pyvc.vals import v_tuple
            nv = lib.pure_call(ex, st, 'df_nrows', [obj], {}, _INT)
            mv = lib.pure_call(ex, st, 'df_ncols', [obj], {}, _INT)
            return v_tuple([nv, mv])
    return None


@lib.hook('ref_method')
def pd_method(ex, st, recv, name, args, kwargs, node):
    if recv.ty.cls == 'PdIndex' and name in ('to_list', 'tolist'):
        ex.ctx.note('LIBSPEC-pd Index.to_list(): a fresh list of the labels (strings for columns)')
        n = uf('pdindex_len', z3.IntSort(), z3.IntSort())(as_ref(recv))
        arr = uf('pdindex_arr', z3.IntSort(), z3.ArraySort(z3.IntSort(), Val))(as_ref(recv))
        st.assume(n >= 0)
        j = z3.Int(fresh_name('j'))
        st.pc.append(z3.ForAll([j], Val.is_s(z3.Select(arr, j))))
        return st.new_list_sym(n, arr, STR)
    return None


lib.PURE_LIB['df_nrows'] = _INT
