"""C15 / C02 / C04: abstraction of the iteration-file rewrite inside
BIOGEME.calculate_likelihood_and_derivatives (active only for those properties).

Model: `with open(name, 'w') as pf` yields a file object that is a heap LIST of the lines
printed to it (so the loop rule, trial execution and invariants apply to it); `os.replace(src,
dst)` installs the lines written to `src` as the content of `dst` (ghost map name -> list);
flush / fileno / os.fsync are no-ops.  Nothing else can change the content of a name, which is
what makes a crash at any point leave `dst` either untouched or complete (A: os.replace atomic).
"""
import ast

import z3

from pyvc import lib
from pyvc import vals as VV
from pyvc.state import Unsupported
from pyvc.vals import STR, TList, V, as_atom, v_bool, v_int, v_none, v_py

PROPS = ('C15', 'C02', 'C04')
# round 3 (m1): the individual -> rows map that Database.build_panel_map computes from (data, panel column): an uninterpreted
# function, used by the assumed contract of build_panel_map and by the clause `panel_map_is_the_map_of_the_data`
lib.PURE_LIB['panel.map_of'] = VV.ANY
OPEN = 'c15_open'          # ghost: name atom id -> (name V, list V)
INSTALLED = 'c15_installed'  # ghost: list of (dst V, lines list V, src V)


def _active(ex):
    return ex.ctx.prop in PROPS


def _with_open(ex, st, node):
    if not _active(ex):
        return None
    if len(node.items) != 1:
        return None
    c = node.items[0].context_expr
    if not (isinstance(c, ast.Call) and isinstance(c.func, ast.Name) and c.func.id == 'open' and c.args):
        return None
    mode = c.args[1] if len(c.args) > 1 else next((k.value for k in c.keywords if k.arg == 'mode'), None)
    mv = ex.ev(st, mode) if mode is not None else None
    if mv is None or mv.lit is None or 'w' not in mv.lit:
        return None
    name = ex.ev(st, c.args[0])
    lines = st.new_list([], STR)
    fobj = v_py(('c15file', name, lines))
    opened = dict(st.ghost.get(OPEN, {}))
    opened[as_atom(name).get_id()] = (name, lines)
    st.ghost[OPEN] = opened
    ex.ctx.note('LIBSPEC open(name, "w"): a new empty file object; its content is the list of lines printed to it')
    if node.items[0].optional_vars is not None:
        ex.assign(st, node.items[0].optional_vars, fobj)
    return ex.exec_block(st, node.body)


lib.HOOKS['exec_with'].insert(0, _with_open)

_prev_print_to = lib.print_to
_prev_pyobj_attr = lib.pyobj_attr
_prev_call_pyobj = lib.call_pyobj


def _print_to(ex, st, args, kw, node):
    f = kw.get('file')
    if f is not None and f.kind == 'py' and f.py[0] == 'c15file':
        if len(args) != 1 or args[0].kind != 'str':
            raise Unsupported('print of several / non-string values to the iteration file')
        lib.list_method(ex, st, f.py[2], 'append', [args[0]], {}, node)
        return v_none()
    return _prev_print_to(ex, st, args, kw, node)


def _pyobj_attr(ex, st, obj, name):
    if obj.py[0] == 'c15file' and name in ('flush', 'fileno', 'close'):
        return v_py(('c15filemeth', obj, name))
    return _prev_pyobj_attr(ex, st, obj, name)


def _call_pyobj(ex, st, fv, args, kwargs, node):
    if fv.py[0] == 'c15filemeth':
        return v_int(3) if fv.py[2] == 'fileno' else v_none()
    return _prev_call_pyobj(ex, st, fv, args, kwargs, node)


lib.print_to = _print_to
lib.pyobj_attr = _pyobj_attr
lib.call_pyobj = _call_pyobj

_prev_handlers = dict(lib.LIB_HANDLERS)


def _fsync(ex, st, args, kwargs, node):
    if not _active(ex) and 'os.fsync' in _prev_handlers:
        return _prev_handlers['os.fsync'](ex, st, args, kwargs, node)
    return v_none()


def _replace(ex, st, args, kwargs, node):
    if not _active(ex):
        if 'os.replace' in _prev_handlers:
            return _prev_handlers['os.replace'](ex, st, args, kwargs, node)
        raise Unsupported('os.replace outside C15')
    src, dst = args
    opened = st.ghost.get(OPEN, {})
    ent = opened.get(as_atom(src).get_id())
    if ent is None:
        raise Unsupported('os.replace of a file that was not written in this function')
    inst = list(st.ghost.get(INSTALLED, []))
    inst.append((dst, ent[1], src))
    st.ghost[INSTALLED] = inst
    ex.ctx.note('LIBSPEC os.replace(src, dst): dst atomically gets the complete content written to src')
    return v_none()


lib.LIB_HANDLERS['os.fsync'] = _fsync
lib.LIB_HANDLERS['os.replace'] = _replace

from pyvc.specs_runtime import spec


@spec('iterfile_installs')
def iterfile_installs(ex, st):
    """number of times a file was installed with os.replace on this path"""
    return v_int(len(st.ghost.get(INSTALLED, [])))


@spec('iterfile_target')
def iterfile_target(ex, st):
    inst = st.ghost.get(INSTALLED, [])
    if len(inst) != 1:
        return VV.v_str('<no file installed on this path>')
    return inst[0][0]


@spec('iterfile_lines')
def iterfile_lines(ex, st):
    inst = st.ghost.get(INSTALLED, [])
    if len(inst) != 1:
        return lib.spec_list(ex, st, [])
    return inst[0][1]


@spec('file_lines')
def file_lines(ex, st, f):
    """the lines printed so far to a file object opened for writing"""
    if f.kind != 'py' or f.py[0] != 'c15file':
        raise Unsupported('file_lines of something that is not an open file')
    return f.py[2]
