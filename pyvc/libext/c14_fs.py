"""C14 ghost file system (LIBSPEC extension, trusted).

Model
-----
The file system is a ghost state threaded through the symbolic execution:

    FS : atom -> Bool      st.ghost['c14_fs']   "a regular file with that name exists"
    EX : atom -> Bool      constant             "anything (file, directory) with that name exists"

`FS` starts as the unconstrained array `c14_fs0` (any directory content) and is updated by every
write event (`Store(FS, name, True)`).  A `pathlib.Path(s)` object is identified with its string
`s` (`Path(s).is_file()` is `os.path.isfile(s)`: documented pathlib equivalence).

Write sinks carry the precondition of the property "never replaces an existing file":

    with open(name, 'w'|'wb'|'a'|'x'...)      obligation  pre:no-overwrite:open   not FS[name]
    DataFrame.to_csv(name, ...) etc.          obligation  pre:no-overwrite:<method>
    os.rename(src, dst) / shutil.copy(src, dst)           pre:no-overwrite:<fn>   not EX[dst]

Content (round 3, agent m2): a second ghost array `CT : atom -> atom` gives the content of each file as a string atom.
`open(name, 'w'|'wb'|'x')` sets CT[name] to the empty string, `f.write(s)` appends s (`str_cat`, with '' + s == s),
`pickle.dump(obj, f)` appends the uninterpreted image `c14_pickled(obj)`, `frame.to_csv(name, ...)` sets CT[name] to
`c14_csv(frame)`, `os.rename` / `shutil.copy` / `shutil.move` give dst the content of src; `print(..., file=f)`, `writelines` and writes in append mode leave the content unconstrained.
What the images mean (pickle / csv fidelity) is decided by the bounded round trips; the deductive clause is "the
writer puts THIS object / THIS report text into the new file".

Writes inside loops are not supported by this model (the ghost state is not havocked by the loop
rule); none of the functions under contract does that.  Only partial correctness is claimed:
`get_new_file_name` loops for ever in a directory that contains every candidate name.
"""
import ast

import z3

from pyvc import lib
from pyvc import vals as VV
from pyvc.state import Unsupported
from pyvc.vals import as_atom, v_bool, v_none, v_py

I, B = VV.I, VV.B
FS0 = z3.Array('c14_fs0', I, B)
KEY = 'c14_fs'
# type name usable in C14 contracts only: an opaque pandas frame whose writer methods are sinks
VV._SIMPLE['c14.DataFrame'] = VV.TRef('pandas.DataFrame')
WRITE_METHODS = ('to_csv', 'to_pickle', 'to_json', 'to_excel', 'to_parquet', 'to_feather', 'to_stata', 'to_hdf')


CT0 = z3.Array('c14_ct0', I, I)
CKEY = 'c14_ct'


def ct_now(st):
    if st.use_old:
        return CT0
    return st.ghost.get(CKEY, CT0)


def _empty_atom():
    return as_atom(VV.v_str(''))


def ct_set(st, atom, content):
    st.ghost[CKEY] = z3.Store(ct_now(st), atom, content)


def ct_append(st, atom, piece):
    """content := content + piece ('' + piece == piece)."""
    cur = z3.Select(ct_now(st), atom)
    ct_set(st, atom, z3.If(cur == _empty_atom(), piece, VV.uf('str_cat', I, I, I)(cur, piece)))


def ct_havoc(st, atom):
    ct_set(st, atom, z3.Const(VV.fresh_name('c14_content'), I))


def pickled_atom(ex, st, obj):
    return VV.uf('c14_pickled', VV.Val, I)(ex.box(st, obj))


def csv_atom(ex, st, frame):
    return VV.uf('c14_csv', VV.Val, I)(ex.box(st, frame))


def fs_now(st):
    if st.use_old:
        return FS0
    return st.ghost.get(KEY, FS0)


def fs_is_file(st, atom):
    return z3.Select(fs_now(st), atom)


def fs_was_file(atom):
    return z3.Select(FS0, atom)


def fs_exists(st, atom):
    ex_ = VV.uf('c14_fs_exists', I, B)(atom)
    return z3.Or(fs_is_file(st, atom), ex_)


def fs_write(ex, st, atom, what, node, strong=False):
    """A write event on `atom`: precondition (nothing is replaced), then FS[atom] := True."""
    goal = z3.Not(fs_exists(st, atom)) if strong else z3.Not(fs_is_file(st, atom))
    ex.oblige(st, 'pre', f'no-overwrite:{what}', goal, node,
              note=f'{what}: the target must not be an existing file (C14 never overwrite)')
    st.ghost[KEY] = z3.Store(fs_now(st), atom, z3.BoolVal(True))


def _str_arg(v, what):
    if v.kind == 'opt' and v.ty.args[0].kind == 'str':
        v = VV.V(v.t, VV.STR)
    if v.kind == 'any':
        # a non-string argument makes the library call raise TypeError: nothing is written
        v = VV.V(v.t, VV.STR)
    if v.kind != 'str':
        raise Unsupported(f'{what} of a non-string value ({v.kind})')
    return v


@lib.lib_handler('pathlib.Path')
def _path(ex, st, args, kwargs, node):
    ex.ctx.note('LIBSPEC pathlib.Path(s): identified with the string s (ghost file system)')
    if len(args) != 1 or kwargs:
        raise Unsupported('Path() with several segments')
    return _str_arg(args[0], 'Path')


@lib.lib_handler('os.path.isfile')
def _isfile(ex, st, args, kwargs, node):
    ex.ctx.note('LIBSPEC os.path.isfile: ghost file system FS[name]')
    return v_bool(fs_is_file(st, as_atom(_str_arg(args[0], 'os.path.isfile'))))


@lib.lib_handler('os.path.exists')
def _exists(ex, st, args, kwargs, node):
    ex.ctx.note('LIBSPEC os.path.exists: ghost file system FS[name] or EX[name]')
    return v_bool(fs_exists(st, as_atom(_str_arg(args[0], 'os.path.exists'))))


def _two_names(name):
    def h(ex, st, args, kwargs, node):
        ex.ctx.note(f'LIBSPEC {name}(src, dst): write event on dst (ghost file system)')
        if len(args) != 2:
            raise Unsupported(f'{name} arity')
        dst = as_atom(_str_arg(args[1], name))
        fs_write(ex, st, dst, name, node, strong=True)
        ct_set(st, dst, z3.Select(ct_now(st), as_atom(_str_arg(args[0], name))))     # dst gets the content of src
        if name == 'os.rename':
            src = as_atom(_str_arg(args[0], name))
            st.ghost[KEY] = z3.Store(fs_now(st), src, z3.BoolVal(False))
            return v_none()
        return args[1]
    return h


lib.LIB_HANDLERS['os.rename'] = _two_names('os.rename')
lib.LIB_HANDLERS['shutil.copy'] = _two_names('shutil.copy')
lib.LIB_HANDLERS['shutil.move'] = _two_names('shutil.move')


@lib.lib_handler('os.path.splitext')
def _splitext(ex, st, args, kwargs, node):
    """base, ext = os.path.splitext(p):  p == base + ext  (the only fact used)."""
    ex.ctx.note('LIBSPEC os.path.splitext: (base, ext) uninterpreted with base + ext == path')
    p = _str_arg(args[0], 'os.path.splitext')
    if p.lit is not None:
        import os
        b, e = os.path.splitext(p.lit)
        return VV.v_tuple([VV.v_str(b), VV.v_str(e)])
    a = as_atom(p)
    base = VV.V(VV.Val.s(VV.uf('splitext_base', I, I)(a)), VV.STR)
    ext = VV.V(VV.Val.s(VV.uf('splitext_ext', I, I)(a)), VV.STR)
    st.assume(VV.uf('str_cat', I, I, I)(as_atom(base), as_atom(ext)) == a)
    return VV.v_tuple([base, ext])


@lib.lib_handler('pickle.dump')
def _pickle_dump(ex, st, args, kwargs, node):
    ex.ctx.note('LIBSPEC pickle.dump(obj, f): content written to the already opened file f')
    f = args[1] if len(args) > 1 else kwargs.get('file')
    if f is None or f.kind != 'py' or f.py[0] != 'c14file' or 'r' in f.py[2]:
        raise Unsupported('pickle.dump to something that is not a file opened for writing in this function')
    ct_append(st, as_atom(f.py[1]), pickled_atom(ex, st, args[0] if args else kwargs['obj']))
    return v_none()


# -- `with open(name, mode) as f:` ---------------------------------------------------------
def _open_call(item):
    c = item.context_expr
    return isinstance(c, ast.Call) and isinstance(c.func, ast.Name) and c.func.id == 'open'


@lib.hook('exec_with')
def _with_open(ex, st, node):
    if len(node.items) != 1 or not _open_call(node.items[0]):
        return None
    call = node.items[0].context_expr
    if not call.args:
        raise Unsupported('open() without a file name')
    name = _str_arg(ex.ev(st, call.args[0]), 'open')
    mode_node = call.args[1] if len(call.args) > 1 else next((k.value for k in call.keywords if k.arg == 'mode'), None)
    mode = 'r'
    if mode_node is not None:
        mv = ex.ev(st, mode_node)
        if mv.lit is None:
            raise Unsupported('open() with a computed mode')
        mode = mv.lit
    if any(c in mode for c in 'wax+'):
        ex.ctx.note('LIBSPEC open(name, write mode): write event on name (ghost file system)')
        fs_write(ex, st, as_atom(name), 'open', call)
        if 'a' in mode or '+' in mode and 'w' not in mode:
            ct_havoc(st, as_atom(name))          # earlier content kept / unknown
        else:
            ct_set(st, as_atom(name), _empty_atom())
    else:
        return None       # open() for reading: the content of files is not modelled here (declined)
    fv = v_py(('c14file', name, mode))
    if node.items[0].optional_vars is not None:
        ex.assign(st, node.items[0].optional_vars, fv)
    return ex.exec_block(st, node.body)


_orig_pyobj_attr = lib.pyobj_attr
_orig_call_pyobj = lib.call_pyobj
_orig_print_to = lib.print_to


def _pyobj_attr(ex, st, obj, name):
    if obj.py[0] == 'c14file' and name in ('write', 'writelines', 'flush', 'close'):
        return v_py(('c14filemeth', obj, name))
    return _orig_pyobj_attr(ex, st, obj, name)


def _call_pyobj(ex, st, fv, args, kwargs, node):
    if fv.py[0] == 'c14filemeth':
        if 'r' in fv.py[1].py[2] and fv.py[2] in ('write', 'writelines'):
            raise Unsupported('write to a file opened for reading')
        target = as_atom(fv.py[1].py[1])
        if fv.py[2] == 'write':
            if len(args) != 1 or kwargs:
                raise Unsupported('file.write arity')
            piece = args[0]
            if piece.kind != 'str':
                ct_havoc(st, target)             # bytes / unknown value: content not modelled
            else:
                ct_append(st, target, as_atom(piece))
        elif fv.py[2] == 'writelines':
            ct_havoc(st, target)
        return v_none()
    return _orig_call_pyobj(ex, st, fv, args, kwargs, node)


def _print_to(ex, st, args, kw, node):
    f = kw.get('file')
    if f is not None and f.kind == 'py' and f.py[0] == 'c14file':
        ct_havoc(st, as_atom(f.py[1]))           # text printed to the file: content not modelled
        return v_none()
    return _orig_print_to(ex, st, args, kw, node)


lib.pyobj_attr = _pyobj_attr
lib.call_pyobj = _call_pyobj
lib.print_to = _print_to


# -- DataFrame writers: frame.to_csv(name, ...) ---------------------------------------------
@lib.hook('ref_attr')
def _df_attr(ex, st, obj, name, node):
    if obj.ty.cls == 'pandas.DataFrame' and name in WRITE_METHODS:
        return v_py(('bound', obj, name))
    return None


@lib.hook('ref_method')
def _df_method(ex, st, recv, name, args, kwargs, node):
    if recv.ty.cls == 'pandas.DataFrame' and name in WRITE_METHODS:
        ex.ctx.note(f'LIBSPEC DataFrame.{name}(name): write event on name (ghost file system)')
        target = args[0] if args else kwargs.get('path_or_buf', kwargs.get('path'))
        if target is None:
            raise Unsupported(f'DataFrame.{name} without a target')
        tgt = as_atom(_str_arg(target, name))
        fs_write(ex, st, tgt, name, node)
        if name == 'to_csv':
            ct_set(st, tgt, csv_atom(ex, st, recv))
        else:
            ct_havoc(st, tgt)
        return v_none()
    return None


# -- methods of path values (strings): wrap the string-method dispatcher --------------------
_orig_str_method = lib.str_method


def _str_method(ex, st, s, name, args, kwargs, node):
    if name in ('is_file', 'exists') and not args and not kwargs:
        ex.ctx.note(f'LIBSPEC Path.{name}: ghost file system predicate over path strings')
        a = as_atom(s)
        return v_bool(fs_is_file(st, a) if name == 'is_file' else fs_exists(st, a))
    return _orig_str_method(ex, st, s, name, args, kwargs, node)


lib.str_method = _str_method
