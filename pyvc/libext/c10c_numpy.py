"""libext (C10, tag c10c): the small ASSUMED array model needed by Database.generate_draws, the native
generator table as an object, and `[x] * n`.

SCOPE: every handler is active only while a function of property C10 is verified (ctx.prop == 'C10');
otherwise the core behaviour is unchanged.

Array model (A-NDARRAY-C10).  An ndarray is an object with a `shape` field (a tuple) and immutable contents
read through the core's uninterpreted element function  any_index(array, index tuple)  (this is what
`a[i, j, k]` on an untyped value already evaluates to).  No function under contract stores into an array
(a subscript store on an untyped value is outside the subset, so this is enforced, not assumed).
Assumed facts, each sample-tested natively by bounded/c10c_numpy_axioms.py:

  A1 (np.array of a list of equally shaped arrays = stacking along a new first axis)
       L a list with n >= 1 arrays, all of shape s  ==>  np.array(L).shape == (n,) + s   and
       np.array(L)[(k,) + idx] == L[k][idx]           for 0 <= k < n and every index tuple idx
  A2 (np.moveaxis(A, 0, -1) for a 3-dimensional A of shape (s0, s1, s2))
       np.moveaxis(A, 0, -1).shape == (s1, s2, s0)   and   np.moveaxis(A, 0, -1)[i, j, k] == A[k, i, j]
  A3 both calls return a NEW object (distinct from every existing one) and modify nothing.

Nothing is assumed when the premises do not hold (ragged list, other axes, other rank): the result is then an
arbitrary new object.

Native generator table.  `native_random_number_generators` (module-level dict literal of biogeme.native_draws)
is ONE pre-existing dict object  dict[str, RandomNumberGeneratorTuple]  with unspecified content (its content is
the subject of C11); the spec function c10c_native_table() denotes the same object.

LIBSPEC list repetition: `[x] * n` is a fresh list of max(n, 0) copies of x (same as libext/c19_listrep.py, for C10).
"""
import ast

import z3

from pyvc import lib, symexec
from pyvc.state import Unsupported
from pyvc.vals import ANY, I, V, Val, as_int, as_ref, fresh_name, uf, v_ref

PROP = 'C10'


def _mine(ex):
    return ex.ctx.prop == PROP


def any_index():
    return uf('any_index', Val, Val, Val)


def tup(*items):
    t = Val.nil
    for it in reversed(items):
        t = Val.tup(it, t)
    return t


# ---- [x] * n -------------------------------------------------------------------------------------
_orig_binop = symexec.Executor.binop


def _is_len_term(t):
    """t is syntactically a read of the internal $len field (through any chain of stores)"""
    if not (z3.is_app(t) and t.decl().kind() == z3.Z3_OP_SELECT):
        return False
    a = t.arg(0)
    while z3.is_app(a) and a.decl().kind() == z3.Z3_OP_STORE:
        a = a.arg(0)
    return z3.is_const(a) and a.decl().name().endswith('$len')


def _binop(self, st, op, l, r, node):
    if isinstance(op, ast.Mult) and _mine(self):
        lst, cnt = (l, r) if l.kind == 'list' else (r, l)
        if (lst.kind == 'list' and cnt.kind == 'int' and cnt.lit is None and lst.items is not None
                and len(lst.items) == 1 and not st.spec):
            n = as_int(cnt)
            x = lst.items[0]
            self.ctx.note('LIBSPEC list repetition: [x] * n is a fresh list of max(n, 0) copies of x')
            if _is_len_term(n):
                st.assume(n >= 0)        # n is len(<list>): lengths are non-negative
                return st.new_list_sym(n, z3.K(I, x.t), ANY)
            return st.new_list_sym(z3.simplify(z3.If(n > 0, n, 0)), z3.K(I, x.t), ANY)
    return _orig_binop(self, st, op, l, r, node)


symexec.Executor.binop = _binop


# ---- the native generator table ------------------------------------------------------------------
NATIVE_REF = z3.Int('c10c!native_table')
NATIVE = ('biogeme.native_draws', 'native_random_number_generators')


def native_table(ex, st):
    ty = ex.ptype('dict[str, biogeme.native_draws.RandomNumberGeneratorTuple]')
    if ty.args[1].kind != 'ref':
        ci = ex.repo.find_class('RandomNumberGeneratorTuple')
        from pyvc.vals import STR, TDict, TRef
        ty = TDict(STR, TRef(ex.repo.class_key(ci)))
    v = V(Val.ref(NATIVE_REF), ty)
    key = ('c10c-native', st.alloc0.get_id())
    if key not in st._typed:
        st._typed.add(key)
        st.pc.append(z3.And(NATIVE_REF >= 0, NATIVE_REF < st.alloc0))
    st.assume_wf_dict(v)
    ex.ctx.note('A-NATIVE-TABLE: native_random_number_generators is one pre-existing dict[str, RandomNumberGeneratorTuple] '
                'object (content unspecified here: C11)')
    return v


_orig_lookup = symexec.Executor.lookup


def _lookup(self, st, name, node=None):
    v = _orig_lookup(self, st, name, node)
    if _mine(self) and v.kind == 'py' and v.py and v.py[0] == 'modglobal' and (v.py[1], v.py[2]) == NATIVE:
        return native_table(self, st)
    return v


symexec.Executor.lookup = _lookup


# ---- numpy.array(list) / numpy.moveaxis(A, 0, -1) -------------------------------------------------------
def _new_array(ex, st):
    r = st.new_ref('ndarray')
    return r, V(Val.ref(r), ANY)


def _np_array(ex, st, args, kwargs, node):
    if not _mine(ex) or len(args) != 1 or kwargs or args[0].kind != 'list' or st.spec:
        return lib.pure_call(ex, st, 'numpy.array', args, kwargs, lib.PURE_LIB['numpy.array'])
    L = args[0]
    n, el = st.list_len(L), st.list_elems(L)
    shape = st.field('shape')
    r, out = _new_array(ex, st)
    s0 = z3.Select(shape, Val.rv(z3.Select(el, 0)))
    k = z3.Int(fresh_name('k'))
    same_shape = z3.ForAll([k], z3.Implies(z3.And(k >= 0, k < n), z3.Select(shape, Val.rv(z3.Select(el, k))) == s0))
    prem = z3.And(n >= 1, same_shape)
    c, idx = z3.Const(fresh_name('c'), Val), z3.Const(fresh_name('idx'), Val)
    get = any_index()
    cn = Val.nv(c)
    elementwise = z3.ForAll([c, idx], z3.Implies(
        z3.And(Val.is_num(c), z3.IsInt(cn), cn >= 0, cn < z3.ToReal(n)),
        get(out.t, Val.tup(c, idx)) == get(z3.Select(el, z3.ToInt(cn)), idx)),
        patterns=[get(out.t, Val.tup(c, idx))])
    st.write(r, 'shape', z3.If(prem, Val.tup(Val.num(z3.ToReal(n)), s0), Val.ref(z3.Int(fresh_name('anyshape')))))
    st.pc.append(z3.Implies(prem, elementwise))
    ex.ctx.note('A-NDARRAY-C10 A1: np.array(list of n>=1 equally shaped arrays) stacks along a new first axis '
                '(shape (n,)+s, element [(k,)+idx] == L[k][idx]); new object')
    return out


lib.LIB_HANDLERS['numpy.array'] = _np_array


def _np_moveaxis(ex, st, args, kwargs, node):
    if not _mine(ex) or st.spec:
        raise Unsupported('library call numpy.moveaxis has no LIBSPEC entry')
    if len(args) == 3 and not kwargs and isinstance(args[1].lit, int) and isinstance(args[2].lit, int) \
            and (args[1].lit, args[2].lit) != (0, -1):
        # m3 (mutation review): other constant axes are not modelled; the result is SOME new array (arbitrary shape and
        # content: weaker than the truth), so that a changed call is decided by the postconditions instead of leaving the subset
        r, out = _new_array(ex, st)
        st.write(r, 'shape', Val.ref(z3.Int(fresh_name('anyshape'))))
        ex.ctx.note('A-NDARRAY-C10: np.moveaxis with axes other than (0, -1): an arbitrary new array (not modelled)')
        return out
    if len(args) != 3 or kwargs or args[1].lit != 0 or args[2].lit != -1:
        raise Unsupported('numpy.moveaxis: only moveaxis(a, 0, -1) is modelled')
    A = args[0]
    shape = st.field('shape')
    sA = z3.Select(shape, as_ref(A))
    s0, s1, s2 = Val.hd(sA), Val.hd(Val.tl(sA)), Val.hd(Val.tl(Val.tl(sA)))
    prem = sA == tup(s0, s1, s2)                       # A is 3-dimensional
    r, out = _new_array(ex, st)
    a, b, c = (z3.Const(fresh_name(x), Val) for x in 'abc')
    get = any_index()
    elementwise = z3.ForAll([a, b, c], get(out.t, tup(a, b, c)) == get(A.t, tup(c, a, b)),
                            patterns=[get(out.t, tup(a, b, c))])
    st.write(r, 'shape', z3.If(prem, tup(s1, s2, s0), Val.ref(z3.Int(fresh_name('anyshape')))))
    st.pc.append(z3.Implies(prem, elementwise))
    ex.ctx.note('A-NDARRAY-C10 A2: np.moveaxis(A, 0, -1) of a 3-d array: shape (s1, s2, s0), element [i, j, k] == A[k, i, j]; new object')
    return out


lib.LIB_HANDLERS['numpy.moveaxis'] = _np_moveaxis


# ---- frame of ONE dictionary: modifies=['dict(self.typesOfDraws)'] -----------------------------------------
# The core's modifies clauses name `obj.field` or `*.field`; the content of a dict lives in the internal fields
# $len/$elems/$dom/$map, which cannot be written as a Python attribute, so a function that fills one dictionary
# could only be given the wildcard `*.$map` (= may change every dict and list).  `dict(<expr>)` names the four
# internal fields of the one object <expr> (evaluated in the pre-state).  Only for C10.
_DICT_FIELDS = ('$len', '$elems', '$dom', '$map')


def _dict_locs(con):
    return [loc for loc in con.modifies if loc.startswith('dict(') and loc.endswith(')')]


_orig_havoc_location = symexec.Executor.havoc_location


def _havoc_location(self, st, loc):
    if _mine(self) and loc.startswith('dict(') and loc.endswith(')'):
        obj = self.spec_eval(st, loc[5:-1], {})
        r = as_ref(obj)
        for f in _DICT_FIELDS:
            cur = st.field(f)
            st.heap[f] = z3.Store(cur, r, z3.Const(fresh_name(f'hv!{f}'), cur.sort().range()))
        st.snap = {}
        return
    return _orig_havoc_location(self, st, loc)


symexec.Executor.havoc_location = _havoc_location

_INSTALLED = [False]


def install():
    """Called by contracts/c10c_draws.py (pyvc.verify is fully imported by then)."""
    if _INSTALLED[0]:
        return
    _INSTALLED[0] = True
    from pyvc import verify as _verify
    _orig_frame_obligations = _verify.frame_obligations

    def _frame_obligations(ex, ctx, st, con, params):
        dl = _dict_locs(con)
        if not (_mine(ex) and dl):
            return _orig_frame_obligations(ex, ctx, st, con, params)
        import copy
        con2 = copy.copy(con)
        con2.modifies = [m for m in con.modifies if m not in dl] + [f'*.{f}' for f in _DICT_FIELDS]
        _orig_frame_obligations(ex, ctx, st, con2, params)       # everything but the four internal fields
        saved = st.locals
        st.locals = dict(params)
        refs = []
        try:
            for loc in dl:
                st.use_old += 1
                try:
                    refs.append(as_ref(ex.spec_eval(st, loc[5:-1], {})))
                finally:
                    st.use_old -= 1
        finally:
            st.locals = saved
        for f in _DICT_FIELDS:
            arr = st.heap.get(f)
            if arr is None:
                continue
            a0 = st.heap0.get(f)
            if a0 is None:
                a0 = z3.Const(f'H0!{f}', arr.sort())
            if arr.eq(a0):
                continue
            r = z3.Int(fresh_name('fr'))
            goal = z3.ForAll([r], z3.Implies(z3.And(r >= 0, r < st.alloc0, *[r != x for x in refs]),
                                             z3.Select(arr, r) == z3.Select(a0, r)))
            ctx.add_oblig(st, 'frame', f.replace('$', '_'), goal)

    _verify.frame_obligations = _frame_obligations
