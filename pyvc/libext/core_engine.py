"""ENGINE-SPEC (assumed): the entry points of the compiled engine object `theC` are pure
functions of their arguments and of the engine object (data / formulas given at construction)."""
from pyvc import lib
from pyvc import vals
from pyvc.vals import MAT, REAL, TTuple, TRef

vals._SIMPLE['CythonEngine'] = TRef('CythonEngine')      # opaque library class

lib.PURE_LIB['engine.calculateLikelihood'] = REAL
lib.PURE_LIB['engine.calculateLikelihoodAndDerivatives'] = TTuple(REAL, MAT, MAT, MAT)
lib.PURE_LIB['float_of_vec0'] = REAL


@lib.hook('ref_method')
def engine_method(ex, st, recv, name, args, kwargs, node):
    if recv.ty.cls == 'CythonEngine' and name in ('calculateLikelihood', 'calculateLikelihoodAndDerivatives'):
        return lib.pure_call(ex, st, 'engine.' + name, [recv] + list(args), kwargs, lib.PURE_LIB['engine.' + name])
    return None
