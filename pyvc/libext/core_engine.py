"""ENGINE-SPEC (assumed): the entry points of the compiled engine object `theC` are pure
functions of their arguments and of the engine object (data / formulas given at construction)."""
from pyvc import lib
from pyvc import vals
from pyvc.state import Unsupported
from pyvc.vals import MAT, REAL, TTuple, TRef

vals._SIMPLE['CythonEngine'] = TRef('CythonEngine')      # opaque library class

lib.PURE_LIB['engine.calculateLikelihood'] = REAL
lib.PURE_LIB['engine.calculateLikelihoodAndDerivatives'] = TTuple(REAL, MAT, MAT, MAT)
lib.PURE_LIB['float_of_vec0'] = REAL


@lib.hook('ref_method')
def engine_method(ex, st, recv, name, args, kwargs, node):
    if recv.ty.cls == 'CythonEngine' and name == 'calculateLikelihood':
        return lib.pure_call(ex, st, 'engine.' + name, [recv] + list(args), kwargs, lib.PURE_LIB['engine.' + name])
    if recv.ty.cls == 'CythonEngine' and name == 'calculateLikelihoodAndDerivatives':
        # (x, fixed betas, literal ids, g, h, bh, hessian flag, bhhh flag): the three output
        # buffers do not influence the result; `indices.values()` is identified with its dictionary
        if len(args) != 8 or kwargs:
            raise Unsupported('calculateLikelihoodAndDerivatives: unexpected arity')
        x, fixed, ids, _g, _h, _bh, hes, bh = args
        if ids.kind == 'py' and ids.py[0] == 'dictview' and ids.py[2] == 'values':
            ids = ids.py[1]
        return lib.pure_call(ex, st, 'engine.' + name, [recv, x, fixed, ids, hes, bh], {}, lib.PURE_LIB['engine.' + name])
    return None
