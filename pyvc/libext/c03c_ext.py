"""libext (C03, tag c03c).  SCOPE: every handler is active only while a function of property C03 is verified
(ctx.prop == 'C03'); otherwise the core behaviour is unchanged.

ENGINE  iteration over an Optional sequence (`if xs is None: xs = default` joins to `list | None`; `for b in xs`):
        iterating None raises TypeError in Python, so an obligation `safe:none:iter` (the value is not None) is
        emitted and the loop runs over the value re-typed to the inner sequence type.
"""
from pyvc import lib
from pyvc.vals import V, Val

import z3


def _mine(ex):
    return ex.ctx.prop == 'C03'


_orig_iter_view = lib.iter_view


def _iter_view(ex, st, v, node=None):
    if _mine(ex) and v.kind == 'opt' and v.ty.args and v.ty.args[0].kind in ('list', 'dict', 'set'):
        ex.oblige(st, 'safe:none', 'iter', z3.Not(Val.is_none(v.t)), node)
        inner = V(v.t, v.ty.args[0])
        return _orig_iter_view(ex, st, inner, node)
    return _orig_iter_view(ex, st, v, node)


lib.iter_view = _iter_view


# ---- list.index of a missing value ---------------------------------------------------------------
# ENGINE  xs.index(v) with no enclosing `except ValueError`: the core turns "v is in xs" into a safety obligation.
#         When the contract under verification declares ValueError (raises / may_raise) the call instead forks:
#         v in xs -> the first position of v;  otherwise the path ends with ValueError (as in Python).
from pyvc.state import Raised          # noqa: E402
from pyvc.vals import fresh_name       # noqa: E402

_orig_list_method = lib.list_method


def _list_method(ex, st, lst, name, args, kwargs, node):
    if _mine(ex) and name == 'index' and len(args) == 1 and not kwargs and not st.spec and not ex.catches(st, 'ValueError'):
        con = ex.frames[0].contract if ex.frames else None
        if con is not None and ('ValueError' in con.raises or 'ValueError' in con.may_raise):
            n, arr, _ = lib.seq_parts(ex, st, lst)
            x = ex.box(st, args[0])
            j = z3.Int(fresh_name('j'))
            present = z3.Exists([j], z3.And(j >= 0, j < n, z3.Select(arr, j) == x))
            ex.ctx.note('LIBSPEC list.index(v): ValueError iff v is not an element, else the first position of v')
            if not ex.decide(st, present):
                raise Raised('ValueError')
    return _orig_list_method(ex, st, lst, name, args, kwargs, node)


lib.list_method = _list_method


# ---- len(set(xs)) --------------------------------------------------------------------------------
# LEMMA card-of-list-set (pigeonhole): for a sequence xs of length n, the set of its elements has at most n members,
#       and exactly n iff the elements are pairwise distinct.  The core leaves the cardinality of set(xs)
#       uninterpreted; IdManager.prepare detects a name used twice by `len(xs) != len(set(xs))`.
from pyvc.vals import I, as_ref, uf   # noqa: E402
from pyvc import vals as _VV          # noqa: E402

_orig_set_of = lib.set_of


def _set_of(ex, st, v):
    out = _orig_set_of(ex, st, v)
    if _mine(ex) and v.kind != 'set':
        try:
            n, arr, _ = lib.seq_parts(ex, st, v)
        except Exception:
            return out
        card = uf('set_card', I, z3.ArraySort(Val, _VV.B), I)(as_ref(out), st.set_dom(out))
        a, b = z3.Int(fresh_name('a')), z3.Int(fresh_name('b'))
        distinct = z3.ForAll([a, b], z3.Implies(z3.And(a >= 0, a < b, b < n), z3.Select(arr, a) != z3.Select(arr, b)))
        st.assume(z3.And(card >= 0, card <= n, (card == n) == distinct))
        ex.ctx.note('LEMMA card-of-list-set: len(set(xs)) <= len(xs), with equality iff the elements of xs are pairwise distinct (pigeonhole)')
    return out


lib.set_of = _set_of


# ---- reading the saved-iteration file (BIOGEME._load_saved_iteration) ---------------------------------
# LIBSPEC open(name) for reading: either OSError, or a file object whose iteration yields the lines of the file;
#         the content of a file is an unknown but fixed sequence of strings, a function of the file name
#         (c03c_file_lines(name)); nothing in the function under contract writes files.
# LIBSPEC s.rpartition(sep): a triple of strings (head, sep-or-empty, tail), uninterpreted functions of (s, sep).
#         The contract of _load_saved_iteration speaks about the same functions: name of a line = head of
#         line.rstrip().rpartition(' = '), value of a line = float(tail).
import ast                                         # noqa: E402
from pyvc.specs_runtime import spec                # noqa: E402
from pyvc.vals import STR, R, as_atom, v_tuple, v_real, v_bool, v_py   # noqa: E402

_B = _VV.B
_SEP = ' = '


def _file_seq(name_atom):
    n = uf('c03c_file_nlines', I, I)(name_atom)
    arr = uf('c03c_file_lines', I, z3.ArraySort(I, Val))(name_atom)
    return n, arr


def _with_open_read(ex, st, node):
    if not _mine(ex) or len(node.items) != 1:
        return None
    c = node.items[0].context_expr
    if not (isinstance(c, ast.Call) and isinstance(c.func, ast.Name) and c.func.id == 'open' and c.args):
        return None
    mode = c.args[1] if len(c.args) > 1 else next((k.value for k in c.keywords if k.arg == 'mode'), None)
    if mode is not None:
        mv = ex.ev(st, mode)
        if mv.lit is None or mv.lit not in ('r', 'rt'):
            return None
    name = ex.ev(st, c.args[0])
    if name.kind != 'str':
        return None
    na = as_atom(name)
    readable = uf('c03c_file_readable', I, _B)(na)
    ex.ctx.note('LIBSPEC open(name) for reading: OSError, or an iterator over the lines of the file (content: unknown fixed function of the name)')
    if not ex.decide(st, readable):
        raise Raised('OSError')
    n, arr = _file_seq(na)
    st.assume(n >= 0)
    j = z3.Int(fresh_name('j'))
    st.pc.append(z3.ForAll([j], Val.is_s(z3.Select(arr, j))))
    fobj = v_py(('specseq', n, arr, STR))
    if node.items[0].optional_vars is not None:
        ex.assign(st, node.items[0].optional_vars, fobj)
    return ex.exec_block(st, node.body)


lib.HOOKS['exec_with'].append(_with_open_read)


def _rpart(s_atom, sep_atom):
    return (uf('c03c_rpart_head', I, I, I)(s_atom, sep_atom), uf('c03c_rpart_mid', I, I, I)(s_atom, sep_atom),
            uf('c03c_rpart_tail', I, I, I)(s_atom, sep_atom))


_orig_value_method = lib.value_method


def _value_method(ex, st, recv, name, args, kwargs, node):
    if _mine(ex) and recv.kind == 'str' and name == 'rpartition' and len(args) == 1 and not kwargs and args[0].kind == 'str':
        h, m, t = _rpart(as_atom(recv), as_atom(args[0]))
        ex.ctx.note('LIBSPEC str.rpartition(sep): (head, sep or empty, tail), uninterpreted functions of the string and the separator')
        return v_tuple([V(Val.s(h), STR), V(Val.s(m), STR), V(Val.s(t), STR)])
    return _orig_value_method(ex, st, recv, name, args, kwargs, node)


lib.value_method = _value_method


@spec('c03c_file_readable')
def c03c_file_readable(ex, st, name):
    return v_bool(uf('c03c_file_readable', I, _B)(as_atom(name)))


@spec('c03c_file_lines')
def c03c_file_lines(ex, st, name):
    """the lines of the file of that name (a sequence of strings)"""
    n, arr = _file_seq(as_atom(name))
    return v_py(('specseq', n, arr, STR))


def _stripped(line):
    return uf('str_rstrip', I, I)(as_atom(line))


@spec('c03c_line_name')
def c03c_line_name(ex, st, line):
    """the parameter name a line `name = value` carries: head of line.rstrip().rpartition(' = ')"""
    return V(Val.s(_rpart(_stripped(line), _VV.ATOMS.atom(_SEP))[0]), STR)


@spec('c03c_line_value')
def c03c_line_value(ex, st, line):
    """the value a line `name = value` carries: float(tail of line.rstrip().rpartition(' = '))"""
    return v_real(uf('float_of_str', I, R)(_rpart(_stripped(line), _VV.ATOMS.atom(_SEP))[2]))


# ---- type(x) of an untyped value (only formatted into an error message in get_value_and_derivatives) --------
from pyvc.state import Unsupported as _Unsupported   # noqa: E402

_orig_b_type = lib.BUILTINS['type']


def _b_type(ex, st, args, kw, node):
    try:
        return _orig_b_type(ex, st, args, kw, node)
    except _Unsupported:
        if _mine(ex):
            return v_py(('c03ctypeof', args[0].t.get_id() if args[0].t is not None else 0))
        raise


lib.BUILTINS['type'] = _b_type


# ---- {key: value for ... in xs} of symbolic length ---------------------------------------------------
# The core states the content of a dict comprehension with a quantifier alternation ("position j gives the value of its
# key unless a LATER position has the same key").  A logical CONSEQUENCE of that fact is added here (nothing new is
# assumed): if the keys are pairwise distinct, every position gives the value of its key.  It lets the solvers use the
# distinctness that IdManager.prepare establishes (len(xs) == len(set(xs))) without instantiating the inner quantifier.
_orig_comprehension = lib.comprehension


def _comprehension(ex, st, node, kind):
    if not (_mine(ex) and kind == 'dict' and len(node.generators) == 1 and not node.generators[0].ifs):
        return _orig_comprehension(ex, st, node, kind)
    gen = node.generators[0]
    if any(not (isinstance(c.func, ast.Name) and c.func.id in ('enumerate', 'zip', 'range', 'len'))
           for c in ast.walk(gen.iter) if isinstance(c, ast.Call)):
        return _orig_comprehension(ex, st, node, kind)       # the iterable is evaluated twice below: only side-effect free ones
    itv = ex.ev(st, gen.iter)
    view = lib.iter_view(ex, st, itv, gen.iter)
    if ex.concrete_int(view.n) is not None:
        return _orig_comprehension(ex, st, node, kind)
    d = _orig_comprehension(ex, st, node, kind)
    saved = dict(st.locals)
    try:
        j, j2 = z3.Int(fresh_name('j')), z3.Int(fresh_name('j'))
        guard = z3.And(j >= 0, j < view.n)
        st.bound.append((j, guard))
        try:
            ex.assign(st, gen.target, view.get(st, j))
            kv = ex.ev(st, node.key)
            vv = ex.ev(st, node.value)
        finally:
            st.bound.pop()
        key2 = z3.substitute(kv.t, (j, j2))
        distinct = z3.ForAll([j, j2], z3.Implies(z3.And(j >= 0, j < j2, j2 < view.n), kv.t != key2))
        mp = st.read(as_ref(d), '$map')
        st.assume(z3.Implies(distinct, z3.ForAll([j], z3.Implies(guard, z3.Select(mp, kv.t) == ex.box(st, vv)))))
    finally:
        st.locals = saved
    return d


lib.comprehension = _comprehension


# ---- extra solver attempts for the obligations of IdManager.prepare -------------------------------------
# The VC of prepare carries ~130 quantified hypotheses; the same query is `unsat` in 1-15 s or `unknown` after 20 s
# depending on seed, constant names and machine load (DESIGN 0.6, incident 4).  When the core portfolio ends with
# `unknown` for such an obligation, a few more configurations are tried (other seeds, MBQI off, longer budget).  Only an
# `unsat` answer changes the verdict (to discharged); `unknown` stays `unknown`, so nothing is assumed.
import time as _time                  # noqa: E402

_RETRY_PREFIX = 'C03:IdManager.prepare'      # also the [collection] variant of the same body
_RETRY = [(30000, 11, True), (30000, 3, False), (45000, 23, True), (45000, 5, False)]


def install_discharge_retry():
    """called by contracts/c03c_prepare.py (pyvc.verify cannot be imported while the extensions are being loaded)"""
    import pyvc.verify as _VF
    if getattr(_VF.discharge, '_c03c_retry', False):
        return
    _orig_discharge = _VF.discharge

    def _discharge(ob, timeout_ms, witness_terms):
        res = _orig_discharge(ob, timeout_ms, witness_terms)
        if res.status != 'unknown' or not ob.name.startswith(_RETRY_PREFIX):
            return res
        t0 = _time.time()
        for tmo, seed, mbqi in _RETRY:
            s = z3.Solver()
            s.set('timeout', tmo)
            s.set('random_seed', seed)
            s.set('smt.random_seed', seed)
            if not mbqi:
                s.set('smt.mbqi', False)
            for a in _VF.background_axioms():
                s.add(a)
            s.add(*ob.hyps)
            s.add(z3.Not(ob.goal))
            try:
                r = str(s.check())
            except z3.Z3Exception:
                r = 'unknown'
            if r == 'unsat':
                res.status = 'discharged'
                res.backend = f'z3-{z3.get_version_string()}(retry seed {seed}{"" if mbqi else ", mbqi off"})'
                res.model = None
                res.note = ob.note
                res.seconds = round(res.seconds + _time.time() - t0, 4)
                return res
        res.seconds = round(res.seconds + _time.time() - t0, 4)
        return res



    _discharge._c03c_retry = True
    _VF.discharge = _discharge
