"""libext (C03, tag c03c).  SCOPE: every handler is active only while a function of property C03 is verified
(ctx.prop == 'C03'); otherwise the core behaviour is unchanged.

ENGINE  iteration over an Optional sequence (`if xs is None: xs = default` joins to `list | None`; `for b in xs`):
        iterating None raises TypeError in Python, so an obligation `safe:none:iter` (the value is not None) is
        emitted and the loop runs over the value re-typed to the inner sequence type.
"""
from pyvc import lib
from pyvc.vals import V, Val

import z3


def _mine(ex):
    return ex.ctx.prop == 'C03'


_orig_iter_view = lib.iter_view


def _iter_view(ex, st, v, node=None):
    if _mine(ex) and v.kind == 'opt' and v.ty.args and v.ty.args[0].kind in ('list', 'dict', 'set'):
        ex.oblige(st, 'safe:none', 'iter', z3.Not(Val.is_none(v.t)), node)
        inner = V(v.t, v.ty.args[0])
        return _orig_iter_view(ex, st, inner, node)
    return _orig_iter_view(ex, st, v, node)


lib.iter_view = _iter_view


# ---- list.index of a missing value ---------------------------------------------------------------
# ENGINE  xs.index(v) with no enclosing `except ValueError`: the core turns "v is in xs" into a safety obligation.
#         When the contract under verification declares ValueError (raises / may_raise) the call instead forks:
#         v in xs -> the first position of v;  otherwise the path ends with ValueError (as in Python).
from pyvc.state import Raised          # noqa: E402
from pyvc.vals import fresh_name       # noqa: E402

_orig_list_method = lib.list_method


def _list_method(ex, st, lst, name, args, kwargs, node):
    if _mine(ex) and name == 'index' and len(args) == 1 and not kwargs and not st.spec and not ex.catches(st, 'ValueError'):
        con = ex.frames[0].contract if ex.frames else None
        if con is not None and ('ValueError' in con.raises or 'ValueError' in con.may_raise):
            n, arr, _ = lib.seq_parts(ex, st, lst)
            x = ex.box(st, args[0])
            j = z3.Int(fresh_name('j'))
            present = z3.Exists([j], z3.And(j >= 0, j < n, z3.Select(arr, j) == x))
            ex.ctx.note('LIBSPEC list.index(v): ValueError iff v is not an element, else the first position of v')
            if not ex.decide(st, present):
                raise Raised('ValueError')
    return _orig_list_method(ex, st, lst, name, args, kwargs, node)


lib.list_method = _list_method
