"""libext (C01, tag c01c).  SCOPE: active only while a function of property C01 is verified.

1. Calls of `get_id` on a receiver whose STATIC class is Expression (children, operands) are governed by the
   ABSTRACT pure contract of Expression.get_id (deterministic function of the receiver), not by the
   `self_class='Expression'` variant that exists to verify the body of Expression.get_id for receivers that are
   exactly Expression objects.  Reason: the core resolves `lookup_method(cls='Expression')` to the `@Expression`
   variant, which (a) wrongly assumes that no child overrides get_id (MultipleExpression does) and (b) is not
   pure, so inside a quantified specification (`forall(lambda q: ... self.children[q].get_id() ...)`) its result
   was ONE fresh constant for all q, constrained by `forall q: ret == id(children[q])` - an assumption that
   makes all children identical (unsound).
2. Guard: applying a non-pure contract inside a quantified specification is refused (Unsupported -> undecided).
"""
from pyvc import symexec as _symexec
from pyvc.state import Unsupported

_orig_call_method = _symexec.Executor.call_method


def _call_method(self, st, recv, name, args, kwargs, node):
    if self.ctx.prop == 'C01' and recv.ty.cls is not None:
        reg = self.ctx.registry
        con = reg.lookup_method(self.repo, recv.ty.cls, name)
        if con is not None and name == 'get_id' and con.self_class is not None:
            abstract = reg.contracts.get(con.qualname)
            if abstract is not None and abstract.pure:
                self.ctx.note('A-DISPATCH: get_id of a child goes through the abstract pure contract of Expression.get_id')
                return self.apply_contract(st, abstract, [recv] + list(args), kwargs, node)
        if con is not None and st.spec and st.bound and not (con.pure and not con.modifies):
            raise Unsupported(f'non-pure contract {con.qualname} applied inside a quantified specification')
    return _orig_call_method(self, st, recv, name, args, kwargs, node)


_symexec.Executor.call_method = _call_method


# ---- `lst += other` inside a loop that carries an invariant ------------------------------------------
# The core's syntactic pass (modified_in) treats every AugAssign target as a REBOUND local, so a list that is
# extended in place (`list_of_signatures += e.get_signature()`) was havocked to an arbitrary reference at the loop
# head: the loop frame was lost (any pre-existing list could have been the one extended) and nothing about the
# heap survived the loop.  Python semantics: for a list, `x += y` is x.__iadd__(y): in-place extend, x keeps its
# identity (this is also what _s_AugAssign executes).  Here: a local that (1) holds a list at the loop head and
# (2) is stored in the loop body ONLY as the target of `+=` is not havocked; its $len/$elems are (found by the
# trial execution, with the list as the loop-invariant store target).
import ast as _ast

_orig_invariant_for = _symexec.Executor.invariant_for


def _inplace_lists(st, body):
    aug = set()
    for s_ in body:
        for n in _ast.walk(s_):
            if isinstance(n, _ast.AugAssign) and isinstance(n.target, _ast.Name) and isinstance(n.op, _ast.Add):
                aug.add(n.target.id)
    # every other way of storing a name in the body disqualifies it
    other = set()
    for s_ in body:
        for n in _ast.walk(s_):
            tg = []
            if isinstance(n, _ast.Assign):
                tg = n.targets
            elif isinstance(n, (_ast.AnnAssign, _ast.For, _ast.comprehension, _ast.NamedExpr)):
                tg = [n.target]
            elif isinstance(n, _ast.AugAssign) and not isinstance(n.op, _ast.Add):
                tg = [n.target]
            elif isinstance(n, _ast.withitem) and n.optional_vars is not None:
                tg = [n.optional_vars]
            for t in tg:
                for x in _ast.walk(t):
                    if isinstance(x, _ast.Name):
                        other.add(x.id)
    return {nm for nm in aug - other if nm in st.locals and st.locals[nm].kind == 'list'}


def _invariant_for(self, st, node, view, ordinal, inv):
    if self.ctx.prop != 'C01':
        return _orig_invariant_for(self, st, node, view, ordinal, inv)
    keep = _inplace_lists(st, node.body)
    if not keep:
        return _orig_invariant_for(self, st, node, view, ordinal, inv)
    self.ctx.note('PY-SEM list += iterable: in-place extend, the local keeps its identity across loop iterations')
    cls_mod = type(self).modified_in

    def mod(stmts):
        names, fields, calls = cls_mod(self, stmts)
        return names - keep, fields | {'$len', '$elems'}, calls
    self.modified_in = mod
    try:
        return _orig_invariant_for(self, st, node, view, ordinal, inv)
    finally:
        del self.modified_in


_symexec.Executor.invariant_for = _invariant_for


# ---- `for a, b in list_of_namedtuples` -----------------------------------------------------------------------
# PY-SEM typing.NamedTuple: unpacking an instance yields its fields in declaration order (the annotated class
# attributes of the class body, in source order).  The core models NamedTuple instances as objects with fields.
_orig_unpack = _symexec.Executor.unpack


def _unpack(self, st, v, n, node):
    if self.ctx.prop == 'C01' and v.kind == 'ref' and v.ty.cls:
        ci = self.repo.find_class(v.ty.cls)
        if ci is not None and any(b.split('.')[-1] == 'NamedTuple' for b in ci.bases):
            names = [s_.target.id for s_ in ci.node.body if isinstance(s_, _ast.AnnAssign) and isinstance(s_.target, _ast.Name)]
            if len(names) != n:
                raise Unsupported('NamedTuple arity mismatch')
            self.ctx.note(f'PY-SEM NamedTuple {ci.name}: unpacking yields the fields in declaration order {names}')
            return [self.get_attr(st, v, nm, node) for nm in names]
    return _orig_unpack(self, st, v, n, node)


_symexec.Executor.unpack = _unpack
