"""libext (C12, round 2, agent c12c): `a_list += other` without a lambda in the heap.

SCOPE: active only while BIOGEME._audit is verified for property C12; otherwise the core behaviour is unchanged.

LIBSPEC list += other (in place): the list keeps its identity, its length grows by len(other), and its contents become a fresh
array A with   A[j] == old[j]  for 0 <= j < len(old)   and   A[len(old) + j] == other[j]  for 0 <= j < len(other)
(the core states the same contents as one z3 lambda stored in the heap, behind which the quantified audit invariants are not
decided by z3 / cvc5).
"""
import z3

from pyvc import lib
from pyvc.state import pattern_ok
from pyvc.vals import I, Val, as_ref, fresh_name

_SCOPE = ('biogeme.biogeme.BIOGEME._audit',)
_orig_list_extend = lib.list_extend


def _mine(ex):
    if ex.ctx.prop != 'C12' or not ex.frames:
        return False
    f = ex.frames[0].func
    return f is not None and f.qualname in _SCOPE


def _fa(vs, body, pat):
    if pattern_ok(pat):
        try:
            return z3.ForAll(vs, body, patterns=[pat])
        except z3.Z3Exception:
            pass
    return z3.ForAll(vs, body)


def _list_extend(ex, st, lst, other):
    if not _mine(ex) or st.bound or st.guards or st.spec:
        return _orig_list_extend(ex, st, lst, other)
    ln, la, _ = lib.seq_parts(ex, st, lst)
    rn, ra, _ = lib.seq_parts(ex, st, other)
    A = z3.Const(fresh_name('ext'), z3.ArraySort(I, Val))
    j = z3.Int(fresh_name('j'))
    st.pc.append(_fa([j], z3.Implies(z3.And(j >= 0, j < ln), z3.Select(A, j) == z3.Select(la, j)), z3.Select(A, j)))
    st.pc.append(_fa([j], z3.Implies(z3.And(j >= 0, j < ln), z3.Select(A, j) == z3.Select(la, j)), z3.Select(la, j)))
    st.pc.append(_fa([j], z3.Implies(z3.And(j >= 0, j < rn), z3.Select(A, ln + j) == z3.Select(ra, j)), z3.Select(ra, j)))
    st.pc.append(_fa([j], z3.Implies(z3.And(j >= ln, j < ln + rn), z3.Select(A, j) == z3.Select(ra, j - ln)), z3.Select(A, j)))
    r = as_ref(lst)
    st.write(r, '$len', z3.simplify(ln + rn))
    st.write(r, '$elems', A)
    lst.items = None
    lst.tail = None
    ex.ctx.note('LIBSPEC(c12c) list += other: same object, contents = fresh array equal to the old contents followed by the other list')


lib.list_extend = _list_extend
