"""libext (C19): work-around for a core defect in loops that grow a local list.

`list.append` updates the *concrete snapshot* `V.items` of the list value in place, and the V object is
shared by all states.  A loop verified with an invariant executes its body several times (trial runs for
the frame inference + the inductive step), so after the loop a list that the body appends to carries a
stale snapshot with one element per execution of the body, and `len(lst)` / `*lst` / membership read that
snapshot instead of the heap.  Before such a loop is executed, the local is re-bound to the same
reference without a snapshot.  Only active while verifying C19 (ctx.prop), so nobody else's obligations move.
"""
import ast

from pyvc import symexec
from pyvc.vals import V

_orig_invariant_for = symexec.Executor.invariant_for
_MUTATORS = ('append', 'extend', 'pop', 'insert', 'remove', 'sort', 'clear')


def _invariant_for(self, st, node, view, ordinal, inv):
    if self.ctx.prop == 'C19':
        for n in ast.walk(ast.Module(body=node.body, type_ignores=[])):
            if (isinstance(n, ast.Call) and isinstance(n.func, ast.Attribute) and n.func.attr in _MUTATORS
                    and isinstance(n.func.value, ast.Name) and n.func.value.id in st.locals):
                v = st.locals[n.func.value.id]
                if v.kind == 'list' and v.items is not None:
                    st.locals[n.func.value.id] = V(v.t, v.ty)
    return _orig_invariant_for(self, st, node, view, ordinal, inv)


symexec.Executor.invariant_for = _invariant_for
