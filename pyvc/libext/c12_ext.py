"""libext (C12): the few builtins / idioms the audit and the placement collectors use.

SCOPE: every handler is active only while a function of property C12 is verified (ctx.prop == 'C12');
otherwise the core behaviour is unchanged.

LIBSPEC float.is_integer():  x.is_integer()  <=>  x is an integer-valued real.
LIBSPEC itertools.chain.from_iterable(L) for a list L of sets, consumed by set(...):
        set(chain.from_iterable(L)) is a NEW set whose members are exactly the members of the sets in L
        (x in result  <=>  exists k < len(L): x in L[k]).
LIBSPEC itertools.chain(*views) of dict.items() views consumed by dict(...) is NOT modelled (out of subset).
ENGINE  super().m(...): a super call is a static call of the inherited body on the same receiver.  The core
        applies the contract registered under the plain qualified name of that body, which for the
        recursive methods is the ABSTRACT contract of the virtual method (meant for calls on children).
        Here the variant contract verified for the receiver's class (`self_class=` variant) is applied
        instead; when there is none the call is out of subset (never the abstract contract on self,
        which would be circular).
"""
import z3

from pyvc import lib
from pyvc import vals as VV
from pyvc.state import Unsupported
from pyvc.vals import ANY, I, V, Val, as_real, as_ref, fresh_name, v_bool, v_py

_DOM = z3.ArraySort(Val, VV.B)


def _mine(ex):
    return ex.ctx.prop == 'C12'


# ---- float.is_integer -------------------------------------------------------------------------
_orig_value_method = lib.value_method


def _value_method(ex, st, recv, name, args, kwargs, node):
    if _mine(ex) and name == 'is_integer' and recv.kind in ('real', 'int') and not args:
        ex.ctx.note('LIBSPEC float.is_integer(): the value is an integer-valued real')
        return v_bool(z3.IsInt(as_real(recv)))
    return _orig_value_method(ex, st, recv, name, args, kwargs, node)


lib.value_method = _value_method


# ---- set(chain.from_iterable([...sets...])) ---------------------------------------------------
def _chain_from_iterable(ex, st, args, kwargs, node):
    if not _mine(ex) or len(args) != 1 or kwargs:
        raise Unsupported('itertools.chain.from_iterable outside its C12 use')
    return v_py(('c12chain', args[0]))


lib.LIB_HANDLERS['itertools.chain.from_iterable'] = _chain_from_iterable

_orig_set_of = lib.set_of


def _set_of(ex, st, v):
    if v.kind == 'py' and v.py and v.py[0] == 'c12chain':
        parts = v.py[1]
        n, arr, ety = lib.seq_parts(ex, st, parts)
        if ety.kind != 'set':
            raise Unsupported(f'chain.from_iterable over a list of {ety.kind}')
        ex.ctx.note('LIBSPEC set(chain.from_iterable(list of sets)): a new set, the union of the members')
        x = z3.Const(fresh_name('x'), Val)
        k = z3.Int(fresh_name('k'))
        doms = st.field('$dom')
        dom = z3.Lambda([x], z3.Exists([k], z3.And(k >= 0, k < n,
                                                   z3.Select(z3.Select(doms, Val.rv(z3.Select(arr, k))), x))))
        return st.new_set(ety.args[0] if ety.args else ANY, dom)
    return _orig_set_of(ex, st, v)


lib.set_of = _set_of


# ---- super().m(...) -----------------------------------------------------------------------------
_orig_call_pyobj = lib.call_pyobj


def _call_pyobj(ex, st, fv, args, kwargs, node):
    p = fv.py
    if p[0] == 'boundfi' and _mine(ex):
        recv, fi = p[1], p[2]
        abstract = ex.ctx.registry.contracts.get(fi.qualname)
        if abstract is not None and not abstract.verify:
            cls = recv.ty.cls
            ci = ex.repo.find_class(cls) if cls else None
            for c in (ex.repo.mro(ci) if ci is not None else []):
                con = ex.ctx.registry.contracts.get(f'{fi.qualname}@{c.name}')
                if con is not None and (c.name == ci.name or not con.exact_self):
                    ex.ctx.note(f'super().{fi.name}: the contract verified for receiver class {c.name} is applied')
                    return ex.apply_contract(st, con, [recv] + list(args), kwargs, node)
            raise Unsupported(f'super().{fi.name} on a {cls}: no contract of the inherited body for this receiver class')
    return _orig_call_pyobj(ex, st, fv, args, kwargs, node)


lib.call_pyobj = _call_pyobj
