"""libext (C12): the few builtins / idioms the audit and the placement collectors use.

SCOPE: every handler is active only while a function of property C12 is verified (ctx.prop == 'C12');
otherwise the core behaviour is unchanged.

LIBSPEC float.is_integer():  x.is_integer()  <=>  x is an integer-valued real.
LIBSPEC itertools.chain.from_iterable(L) for a list L of sets, consumed by set(...):
        set(chain.from_iterable(L)) is a NEW set whose members are exactly the members of the sets in L
        (x in result  <=>  exists k < len(L): x in L[k]).
LIBSPEC itertools.chain(*views) of dict.items() views consumed by dict(...) is NOT modelled (out of subset).
ENGINE  super().m(...): a super call is a static call of the inherited body on the same receiver.  The core
        applies the contract registered under the plain qualified name of that body, which for the
        recursive methods is the ABSTRACT contract of the virtual method (meant for calls on children).
        Here the variant contract verified for the receiver's class (`self_class=` variant) is applied
        instead; when there is none the call is out of subset (never the abstract contract on self,
        which would be circular).
"""
import z3

from pyvc import lib
from pyvc import vals as VV
from pyvc.state import Unsupported
from pyvc.vals import ANY, I, V, Val, as_real, as_ref, fresh_name, v_bool, v_py

_DOM = z3.ArraySort(Val, VV.B)


def _mine(ex):
    return ex.ctx.prop == 'C12'


# ---- float.is_integer -------------------------------------------------------------------------
_orig_value_method = lib.value_method


def _value_method(ex, st, recv, name, args, kwargs, node):
    if _mine(ex) and name == 'is_integer' and recv.kind in ('real', 'int') and not args:
        ex.ctx.note('LIBSPEC float.is_integer(): the value is an integer-valued real')
        return v_bool(z3.IsInt(as_real(recv)))
    return _orig_value_method(ex, st, recv, name, args, kwargs, node)


lib.value_method = _value_method


# ---- set(chain.from_iterable([...sets...])) ---------------------------------------------------
def _chain_from_iterable(ex, st, args, kwargs, node):
    if not _mine(ex) or len(args) != 1 or kwargs:
        raise Unsupported('itertools.chain.from_iterable outside its C12 use')
    return v_py(('c12chain', args[0]))


lib.LIB_HANDLERS['itertools.chain.from_iterable'] = _chain_from_iterable

_orig_set_of = lib.set_of


def _set_of(ex, st, v):
    if v.kind == 'py' and v.py and v.py[0] == 'c12chain':
        parts = v.py[1]
        n, arr, ety = lib.seq_parts(ex, st, parts)
        if ety.kind != 'set':
            raise Unsupported(f'chain.from_iterable over a list of {ety.kind}')
        ex.ctx.note('LIBSPEC set(chain.from_iterable(list of sets)): a new set, the union of the members')
        x = z3.Const(fresh_name('x'), Val)
        k = z3.Int(fresh_name('k'))
        doms = st.field('$dom')
        dom = z3.Lambda([x], z3.Exists([k], z3.And(k >= 0, k < n,
                                                   z3.Select(z3.Select(doms, Val.rv(z3.Select(arr, k))), x))))
        return st.new_set(ety.args[0] if ety.args else ANY, dom)
    return _orig_set_of(ex, st, v)


lib.set_of = _set_of


# ---- super().m(...) -----------------------------------------------------------------------------
_orig_call_pyobj = lib.call_pyobj


def _call_pyobj(ex, st, fv, args, kwargs, node):
    p = fv.py
    if p[0] == 'boundfi' and _mine(ex):
        recv, fi = p[1], p[2]
        abstract = ex.ctx.registry.contracts.get(fi.qualname)
        if abstract is not None and not abstract.verify:
            cls = recv.ty.cls
            ci = ex.repo.find_class(cls) if cls else None
            for c in (ex.repo.mro(ci) if ci is not None else []):
                con = ex.ctx.registry.contracts.get(f'{fi.qualname}@{c.name}')
                if con is not None and (c.name == ci.name or not con.exact_self):
                    ex.ctx.note(f'super().{fi.name}: the contract verified for receiver class {c.name} is applied')
                    return ex.apply_contract(st, con, [recv] + list(args), kwargs, node)
            raise Unsupported(f'super().{fi.name} on a {cls}: no contract of the inherited body for this receiver class')
    return _orig_call_pyobj(ex, st, fv, args, kwargs, node)


lib.call_pyobj = _call_pyobj


# ---- `name in dataframe.columns` ---------------------------------------------------------------------
@lib.hook('ref_contains')
def _pdindex_contains(ex, st, container, item, node):
    if _mine(ex) and container.kind == 'ref' and container.ty.cls == 'PdIndex':
        ex.ctx.note('LIBSPEC-pd `label in df.columns`: uninterpreted membership pdindex_has(index, label)')
        return VV.uf('pdindex_has', I, Val, VV.B)(as_ref(container), ex.box(st, item))
    return None


# ---- dict key views: `a.keys() != b.keys()`, `a.keys() - b.keys()` ---------------------------------------
import ast as _ast

from pyvc import symexec as _symexec


def _keys_view(v):
    return v.kind == 'py' and v.py and v.py[0] == 'dictview' and v.py[2] == 'keys'


_orig_compare = _symexec.Executor.compare


def _compare(self, st, op, l, r, node):
    if _mine(self) and isinstance(op, (_ast.Eq, _ast.NotEq)) and _keys_view(l) and _keys_view(r):
        self.ctx.note('LIBSPEC dict.keys() == dict.keys(): same key sets')
        x = z3.Const(fresh_name('x'), Val)
        same = z3.ForAll([x], st.dict_has(l.py[1], V(x, ANY)) == st.dict_has(r.py[1], V(x, ANY)))
        return v_bool(same if isinstance(op, _ast.Eq) else z3.Not(same))
    return _orig_compare(self, st, op, l, r, node)


_symexec.Executor.compare = _compare

_orig_binop = _symexec.Executor.binop


def _binop(self, st, op, l, r, node):
    if _mine(self) and isinstance(op, _ast.Sub) and _keys_view(l) and _keys_view(r) and not st.spec:
        # only used to build the text of a message: abstracted to a new collection of unknown size and content
        # (every behaviour of the real set difference is included)
        self.ctx.note('LIBSPEC dict.keys() - dict.keys(): abstracted to a new collection of unknown content (message text only)')
        dl = l.py[1]
        n = VV.fresh_int('kdiff')
        st.assume(n >= 0)
        # an immutable sequence value (no allocation: the heap is untouched)
        return lib.spec_seq(self, st, n, z3.Const(fresh_name('kdiffel'), z3.ArraySort(I, Val)),
                            dl.ty.args[0] if len(dl.ty.args) == 2 else ANY)
    return _orig_binop(self, st, op, l, r, node)


_symexec.Executor.binop = _binop

_orig_truth = _symexec.Executor.truth


def _truth(self, st, v):
    if _mine(self) and v.kind == 'py' and v.py and v.py[0] == 'specseq':
        return v.py[1] > 0          # a sequence value is true iff it is not empty
    return _orig_truth(self, st, v)


_symexec.Executor.truth = _truth


# ---- CUT: verify a prefix of a body, the rest is an abstract tail ------------------------------------------
# CUTS[qualname] = anchor (source text the first tail statement starts with), the local lists the tail may only
# append to, and the tuple of locals it returns.  ASSUMED about the tail (its syntactic part is the static
# obligation C12:static:LogLogit.audit-tail of props/C12.py; its numeric content stays with the bounded harness):
# it returns normally, only appends to the named lists and returns them.
CUTS = {
    'biogeme.expressions.logit_expressions.LogLogit.audit': {
        'anchor': 'list_of_alternatives = list(self.util)',
        'grows': ['list_of_errors', 'list_of_warnings'],
        'returns': ['list_of_errors', 'list_of_warnings']},
}

_orig_exec_block = _symexec.Executor.exec_block


def _abstract_tail(self, st, cut, line):
    from pyvc.vals import v_tuple
    for name in cut['grows']:
        lst = st.locals[name]
        r = as_ref(lst)
        n0, a0 = st.read(r, '$len'), st.read(r, '$elems')
        n1 = VV.fresh_int('taillen')
        a1 = z3.Const(fresh_name('tailelems'), z3.ArraySort(I, Val))
        j = z3.Int(fresh_name('j'))
        st.assume(n1 >= n0)
        st.pc.append(z3.ForAll([j], z3.Implies(z3.And(j >= 0, j < n0), z3.Select(a1, j) == z3.Select(a0, j))))
        st.write(r, '$len', n1)
        st.write(r, '$elems', a1)
        lst.items = None
        lst.tail = None
    self.ctx.note('CUT: the statements after the early return of LogLogit.audit (numpy checks of the choice and the '
                  'availabilities) are an ASSUMED tail: returns normally, only appends to its two lists')
    return _symexec.Outcome('return', st, val=v_tuple([st.locals[n] for n in cut['returns']]), line=line)


def _exec_block(self, st, stmts):
    fr = self.frames[-1] if self.frames else None
    if (fr is not None and self.ctx.prop == 'C12' and fr.depth == 0 and fr.func is not None
            and fr.func.qualname in CUTS and stmts and any(stmts[0] is s for s in fr.func.node.body[:2])):
        cut = CUTS[fr.func.qualname]
        idx = [i for i, s in enumerate(stmts) if _ast.unparse(s).startswith(cut['anchor'])]
        if len(idx) != 1:
            raise Unsupported(f'CUT anchor `{cut["anchor"]}` not found exactly once in {fr.func.qualname}')
        outs = _orig_exec_block(self, st, stmts[:idx[0]])
        res = []
        for o in outs:
            res.append(_abstract_tail(self, o.st, cut, stmts[idx[0]].lineno) if o.kind == 'normal' else o)
        return res
    return _orig_exec_block(self, st, stmts)


_symexec.Executor.exec_block = _exec_block


# ---- `if a or b or c:` over operands of different kinds -----------------------------------------------------
# The core evaluates a BoolOp to the VALUE of the deciding operand; when the operands have different kinds (a list,
# then two sets) that value is untyped and its truth becomes uninterpreted, i.e. the test of the `if` is lost.  As the
# test of an `if` only the truth matters: it is the disjunction / conjunction of the operands' truths (operands are
# evaluated under the guard that the previous ones did not decide, as the core does).
def _bool_test(self, st, node):
    is_and = isinstance(node.op, _ast.And)
    conds, pushed = [], 0
    try:
        for e in node.values:
            v = _bool_test(self, st, e) if isinstance(e, _ast.BoolOp) else self.truth(st, self.ev(st, e))
            conds.append(v)
            st.guards.append(v if is_and else z3.Not(v))
            pushed += 1
    finally:
        for _ in range(pushed):
            st.guards.pop()
    return z3.And(*conds) if is_and else z3.Or(*conds)


_orig_s_If = _symexec.Executor._s_If


def _s_If(self, st, node):
    if not (_mine(self) and isinstance(node.test, _ast.BoolOp)):
        return _orig_s_If(self, st, node)
    c = z3.simplify(_bool_test(self, st, node.test))
    if z3.is_true(c):
        return self.exec_block(st, node.body)
    if z3.is_false(c):
        return self.exec_block(st, node.orelse)
    s1 = st.copy()
    s1.pc.append(c)
    s2 = st.copy()
    s2.pc.append(z3.Not(c))
    return self.merge_outcomes(self.exec_block(s1, node.body) + self.exec_block(s2, node.orelse))


_symexec.Executor._s_If = _s_If


# ---- fuzzywuzzy.fuzz.ratio (only feeds a log message in dict_of_formulas.get_expression) ----------------------
from pyvc.vals import INT as _INT

lib.PURE_LIB.setdefault('fuzzywuzzy.fuzz.ratio', _INT)


# ---- type(x) of an untyped value (only formatted into a message) -----------------------------------------------
_orig_b_type = lib.BUILTINS['type']


def _b_type(ex, st, args, kw, node):
    try:
        return _orig_b_type(ex, st, args, kw, node)
    except Unsupported:
        if _mine(ex):
            return v_py(('c12typeof', args[0].t.get_id() if args[0].t is not None else 0))
        raise


lib.BUILTINS['type'] = _b_type

