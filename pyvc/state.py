"""Symbolic state: locals, heap (one z3 array per field), path condition, allocation."""
from __future__ import annotations

import z3

from . import vals as VV_
from .vals import (ANY, B, BOOL, I, INT, R, REAL, STR, T, TDict, TList, TSet, V, Val,
                   as_int, as_ref, fresh_int, fresh_name, fresh_val, type_invariant,
                   v_int, v_ref)

ARR_VAL = z3.ArraySort(I, Val)            # ordinary field: ref -> Val
SEQ = z3.ArraySort(I, Val)                # list contents: index -> Val
DOM = z3.ArraySort(Val, B)
MAP = z3.ArraySort(Val, Val)

INTERNAL = {
    '$len': z3.ArraySort(I, I),
    '$elems': z3.ArraySort(I, SEQ),
    '$dom': z3.ArraySort(I, DOM),
    '$map': z3.ArraySort(I, MAP),
}


def occurs(var, expr) -> bool:
    """Does the constant `var` occur in `expr`?"""
    seen = set()
    todo = [expr]
    vid = var.get_id()
    while todo:
        e = todo.pop()
        i = e.get_id()
        if i in seen:
            continue
        seen.add(i)
        if i == vid:
            return True
        if z3.is_quantifier(e):
            todo.append(e.body())
        elif z3.is_app(e):
            todo.extend(e.children())
    return False


def pattern_ok(t) -> bool:
    """A term usable as an E-matching pattern: no ite / connectives / lambdas inside."""
    seen = set()
    todo = [t]
    while todo:
        e = todo.pop()
        if e.get_id() in seen:
            continue
        seen.add(e.get_id())
        if z3.is_quantifier(e):
            return False
        if z3.is_app(e):
            k = e.decl().kind()
            if k in (z3.Z3_OP_ITE, z3.Z3_OP_AND, z3.Z3_OP_OR, z3.Z3_OP_NOT, z3.Z3_OP_IMPLIES, z3.Z3_OP_EQ):
                return False
            todo.extend(e.children())
    return True


class Unsupported(Exception):
    """Statement / expression outside the verified subset."""


class Raised(Exception):
    """A Python exception raised symbolically (propagates to the statement executor)."""

    def __init__(self, cls: str, msg=None, node=None):
        super().__init__(cls)
        self.cls = cls
        self.msg = msg
        self.node = node


class Fork(Exception):
    def __init__(self, n: int = 2):
        super().__init__('fork')
        self.n = n


class State:
    def __init__(self):
        self.locals: dict[str, V] = {}
        self.heap: dict[str, object] = {}
        self.heap0: dict[str, object] = {}      # entry heap (for old())
        self.locals0: dict[str, V] = {}
        self.pc: list = []
        self.guards: list = []                  # conditions of the enclosing IfExp/BoolOp arms
        self.alloc = z3.Int('alloc0')
        self.alloc0 = self.alloc
        self.decisions: list[int] = []
        self.dpos = 0
        self.try_stack: list[set[str]] = []     # exception class names caught by enclosing try
        self.ghost: dict[str, object] = {}
        self.spec = 0                           # >0 while evaluating a contract expression
        self.unbound: dict[str, object] = {}    # local name -> condition under which it is NOT bound (joins of branches)
        self.untyped_fields: set[str] = set()   # fields into which this function stored a value not known to have the declared type
        self.use_old = 0
        self.bound: list = []                   # bound variables of enclosing lambdas: (var, guard)
        self.trace: list[str] = []
        self._typed: set = set()
        self.nonneg: set = set()                # ids of Int terms known to be >= 0
        self.fresh: set = set()                 # ids of reference terms allocated by new_ref
        self.havoc_parent: dict = {}            # id of an alloc-only havoc constant -> array it extends
        self.snap: dict = {}                    # list reference id -> (items, tail) concrete snapshots

    def copy(self) -> 'State':
        s = State.__new__(State)
        s.locals = dict(self.locals)
        s.heap = dict(self.heap)
        s.heap0 = self.heap0
        s.locals0 = self.locals0
        s.pc = list(self.pc)
        s.guards = list(self.guards)
        s.alloc = self.alloc
        s.alloc0 = self.alloc0
        s.decisions = list(self.decisions)
        s.dpos = self.dpos
        s.try_stack = list(self.try_stack)
        s.ghost = dict(self.ghost)
        s.spec = self.spec
        s.use_old = self.use_old
        s.bound = list(self.bound)
        s.trace = list(self.trace)
        s._typed = set(self._typed)
        s.nonneg = set(self.nonneg)
        s.fresh = set(self.fresh)
        s.havoc_parent = dict(self.havoc_parent)
        s.unbound = dict(self.unbound)
        s.untyped_fields = set(self.untyped_fields)
        s.snap = dict(self.snap)
        return s

    # -- assumptions ----------------------------------------------------------
    def _close(self, fact):
        """Wrap a fact with the current guards and bound variables."""
        if self.guards:
            fact = z3.Implies(z3.And(*self.guards), fact)
        for var, guard in reversed(self.bound):
            fact = z3.ForAll([var], z3.Implies(guard, fact))
        return fact

    def assume(self, fact):
        if isinstance(fact, bool):
            fact = z3.BoolVal(fact)
        fact = self._close(fact)
        if z3.is_true(fact):
            return
        if any(fact.eq(x) for x in self.pc[-40:]):
            return
        self.pc.append(fact)

    def assume_type(self, v, guard=None):
        """Type invariant of a value read from the heap / an input.  Type invariants are
        unconditional assumptions about typed locations, so they are not guarded; they are
        quantified only over the bound variables that occur in them.  `guard`: the location exists only
        under this condition (value of a dict key that may be absent: an absent key of a fresh dict reads
        `none`, and an unguarded type fact about it would make the state inconsistent)."""
        facts = type_invariant(v)
        if not facts:
            return
        for fact in facts:
            if guard is not None and not z3.is_true(guard):
                fact = z3.Implies(guard, fact)
            for var, guard in reversed(self.bound):
                if occurs(var, fact):
                    fact = z3.ForAll([var], z3.Implies(guard, fact))
            key = fact.get_id()
            if key in self._typed:
                continue
            self._typed.add(key)
            self.pc.append(fact)

    def is_nonneg(self, t) -> bool:
        t = z3.simplify(t)
        if z3.is_int_value(t):
            return t.as_long() >= 0
        if t.get_id() in self.nonneg:
            return True
        if z3.is_app(t):
            k = t.decl().kind()
            if k == z3.Z3_OP_ADD:
                return all(self.is_nonneg(c) for c in t.children())
            if k == z3.Z3_OP_MUL:
                return all(self.is_nonneg(c) for c in t.children())
            if k == z3.Z3_OP_SELECT and t.arg(0).decl().name().endswith('$len'):
                return True
        return False

    def mark_nonneg(self, t):
        self.nonneg.add(z3.simplify(t).get_id())
        self.nonneg.add(t.get_id())

    def hyps(self) -> list:
        return list(self.pc) + list(self.guards)

    # -- heap -----------------------------------------------------------------
    def field(self, name: str):
        h = self.heap0 if self.use_old else self.heap
        if name not in h:
            sort = INTERNAL.get(name, ARR_VAL)
            arr = z3.Const(f'H0!{name}', sort)
            # a field first seen now was never written: same in both heaps
            self.heap0.setdefault(name, arr)
            if name not in self.heap:
                self.heap[name] = self.heap0[name]
            h = self.heap0 if self.use_old else self.heap
        return h[name]

    def read(self, ref, name: str):
        return z3.Select(self.field(name), ref)

    def write(self, ref, name: str, val):
        if self.spec:
            raise Unsupported('store inside a specification expression')
        self.heap[name] = z3.Store(self.field(name), ref, val)

    def new_ref(self, prefix='obj'):
        if self.bound and not getattr(self, 'alloc_under_binder_ok', False):
            # one reference would stand for the objects of ALL instances of the bound variable (aliasing)
            raise Unsupported('allocation of an object under a quantifier / comprehension binder')
        r = fresh_int(prefix)
        self.assume(r >= self.alloc)
        self.alloc = r + 1
        self.fresh.add(r.get_id())
        return r

    # -- lists ----------------------------------------------------------------
    def list_len(self, lv: V):
        n = self.read(as_ref(lv), '$len')
        if not z3.is_int_value(n) and not self.bound:
            # the length of a Python container is never negative (also after a havoc, and for results of callees)
            key = ('len>=0', n.get_id())
            if key not in self._typed:
                self._typed.add(key)
                self.pc.append(n >= 0)
        return n

    def list_elems(self, lv: V):
        return self.read(as_ref(lv), '$elems')

    def list_get(self, lv: V, idx) -> V:
        ety = lv.ty.args[0] if lv.ty.args else ANY
        t = z3.Select(self.list_elems(lv), idx)
        return V(t, ety)

    def new_list(self, items: list[V], ety: T | None = None) -> V:
        r = self.new_ref('list')
        arr = z3.K(I, Val.none)
        for k, it in enumerate(items):
            arr = z3.Store(arr, z3.IntVal(k), it.t)
        self.write(r, '$len', z3.IntVal(len(items)))
        self.write(r, '$elems', arr)
        if ety is None:
            tys = {i.ty for i in items}
            ety = tys.pop() if len(tys) == 1 else ANY
        v = v_ref(r, None).with_ty(TList(ety))
        prev, VV_.CUR[0] = VV_.CUR[0], self
        try:
            v.items = list(items)        # concrete snapshot, kept in this state
        finally:
            VV_.CUR[0] = prev
        return v

    def new_list_sym(self, n, elems, ety: T = ANY) -> V:
        r = self.new_ref('list')
        self.write(r, '$len', n)
        self.write(r, '$elems', elems)
        return v_ref(r, None).with_ty(TList(ety))

    # -- dicts / sets -----------------------------------------------------------
    def new_dict(self, kty: T = ANY, vty: T = ANY) -> V:
        r = self.new_ref('dict')
        self.write(r, '$len', z3.IntVal(0))
        self.write(r, '$elems', z3.K(I, Val.none))
        self.write(r, '$dom', z3.K(Val, z3.BoolVal(False)))
        self.write(r, '$map', z3.K(Val, Val.none))
        return v_ref(r, None).with_ty(TDict(kty, vty))

    def assume_wf_dict(self, dv: V):
        """Representation invariant of a pre-existing dict: its key list enumerates its domain
        without repetition (insertion order)."""
        from .vals import uf
        r = as_ref(dv)
        key = ('wfdict', r.get_id(), self.field('$elems').get_id(), self.field('$dom').get_id())
        if key in self._typed:
            return
        self._typed.add(key)
        n = self.read(r, '$len')
        el = self.read(r, '$elems')
        dom = self.read(r, '$dom')
        pos = uf('dict_pos', z3.ArraySort(I, Val), Val, I)
        j, j2 = z3.Int(fresh_name('j')), z3.Int(fresh_name('j'))
        x = z3.Const(fresh_name('x'), Val)
        def fa(vs, body, pat):
            if pattern_ok(pat):
                try:
                    return z3.ForAll(vs, body, patterns=[pat])
                except z3.Z3Exception:
                    pass
            return z3.ForAll(vs, body)
        facts = [n >= 0,
                 fa([j], z3.Implies(z3.And(j >= 0, j < n), z3.And(z3.Select(dom, z3.Select(el, j)),
                                                                 pos(el, z3.Select(el, j)) == j)),
                    z3.Select(el, j)),
                 fa([x], z3.Implies(z3.Select(dom, x), z3.And(pos(el, x) >= 0, pos(el, x) < n,
                                                              z3.Select(el, pos(el, x)) == x)),
                    z3.Select(dom, x))]
        kty = dv.ty.args[0] if len(dv.ty.args) == 2 else ANY
        if kty.kind == 'str':
            facts.append(fa([x], z3.Implies(z3.Select(dom, x), Val.is_s(x)), z3.Select(dom, x)))
        elif kty.kind == 'int':
            facts.append(fa([x], z3.Implies(z3.Select(dom, x), z3.And(Val.is_num(x), z3.IsInt(Val.nv(x)))), z3.Select(dom, x)))
        elif kty.kind == 'real':
            facts.append(fa([x], z3.Implies(z3.Select(dom, x), Val.is_num(x)), z3.Select(dom, x)))
        vty = dv.ty.args[1] if len(dv.ty.args) == 2 else ANY
        mp = self.read(r, '$map')
        vfacts = type_invariant(V(z3.Select(mp, x), vty))
        if vfacts:
            facts.append(fa([x], z3.Implies(z3.Select(dom, x), z3.And(*vfacts)), z3.Select(mp, x)))
        self.pc.extend(facts)

    def dict_has(self, dv: V, key: V):
        return z3.Select(self.read(as_ref(dv), '$dom'), key.t)

    def dict_get(self, dv: V, key: V) -> V:
        vty = dv.ty.args[1] if len(dv.ty.args) == 2 else ANY
        return V(z3.Select(self.read(as_ref(dv), '$map'), key.t), vty)

    def dict_set(self, dv: V, key: V, val: V):
        r = as_ref(dv)
        dom = self.read(r, '$dom')
        present = z3.Select(dom, key.t)
        n = self.read(r, '$len')
        el = self.read(r, '$elems')
        self.write(r, '$elems', z3.If(present, el, z3.Store(el, n, key.t)))
        self.write(r, '$len', z3.If(present, n, n + 1))
        self.write(r, '$dom', z3.Store(dom, key.t, z3.BoolVal(True)))
        self.write(r, '$map', z3.Store(self.read(r, '$map'), key.t, val.t))

    def new_set(self, ety: T = ANY, dom=None) -> V:
        r = self.new_ref('set')
        self.write(r, '$dom', dom if dom is not None else z3.K(Val, z3.BoolVal(False)))
        return v_ref(r, None).with_ty(TSet(ety))

    def set_dom(self, sv: V):
        return self.read(as_ref(sv), '$dom')
