"""Sidecar contract registry."""
from __future__ import annotations

from dataclasses import dataclass, field


@dataclass
class LoopInv:
    clauses: dict[str, str]
    modifies: list[str] = field(default_factory=list)   # heap fields the loop may change
    modifies_exact: bool = False                        # True: exactly `modifies` (even with calls)


@dataclass
class Contract:
    qualname: str
    props: list[str]
    requires: dict[str, str] = field(default_factory=dict)
    ensures: dict[str, str] = field(default_factory=dict)
    raises: dict[str, str] = field(default_factory=dict)     # exc -> condition (iff, pre-state)
    may_raise: list[str] = field(default_factory=list)       # exceptions left unconstrained
    modifies: list[str] = field(default_factory=list)
    pure: bool = False
    reads: list[str] = field(default_factory=list)
    types: dict[str, str] = field(default_factory=dict)
    returns: str | None = None
    invariants: dict[int, LoopInv] = field(default_factory=dict)
    verify: bool = True            # False: assumed contract (trusted; listed in the evidence)
    check_safe: bool = True
    check_frame: bool = True
    exact_self: bool = True        # self is exactly of the declaring class (not a subclass)
    self_class: str | None = None  # verify the (inherited) body for this receiver class
    label: str | None = None       # obligation label override (e.g. Minus.get_signature)
    replay: str | None = None      # python code run by tools/replay.py on the real code: sets `violated`
    note: str = ''
    min_obligations: int = 1
    inline_only: bool = False
    hints: list[str] = field(default_factory=list)   # spec expressions evaluated at return points (facts only)
    nla_uf: bool = False           # products of two symbolic reals as an uninterpreted function


class Registry:
    def __init__(self):
        self.contracts: dict[str, Contract] = {}
        self.variants: dict[str, list[Contract]] = {}
        self.field_types: dict[tuple[str, str], object] = {}
        self.exact_classes: set[str] = set()
        self.lemmas: list = []
        self.statics: list = []

    def add(self, c: Contract):
        key = c.qualname if c.self_class is None else f'{c.qualname}@{c.self_class}'
        if key in self.contracts:
            raise ValueError(f'duplicate contract {key}')
        self.contracts[key] = c

    def get(self, qualname: str, self_class: str | None = None) -> Contract | None:
        if self_class is not None:
            c = self.contracts.get(f'{qualname}@{self_class}')
            if c is not None:
                return c
        return self.contracts.get(qualname)

    def lookup_method(self, repo, cls: str, meth: str) -> Contract | None:
        """Contract that governs a call of `meth` on a receiver of static class `cls`:
        the nearest class in the MRO that has a contract for the method."""
        ci = repo.find_class(cls)
        if ci is None:
            return None
        for c in repo.mro(ci):
            q = f'{c.module}.{c.name}.{meth}'
            if f'{q}@{cls}' in self.contracts:
                return self.contracts[f'{q}@{cls}']
            if q in self.contracts:
                return self.contracts[q]
        return None

    def for_prop(self, prop: str) -> list[Contract]:
        return [c for c in self.contracts.values() if prop in c.props]


REGISTRY = Registry()


def contract(qualname: str, props, **kw) -> Contract:
    if isinstance(props, str):
        props = [props]
    inv = kw.pop('invariants', {})
    invs = {}
    for k, v in inv.items():
        if isinstance(v, LoopInv):
            invs[k] = v
        elif isinstance(v, dict) and 'clauses' in v:
            invs[k] = LoopInv(**v)
        else:
            invs[k] = LoopInv(clauses=dict(v))
    for key in ('requires', 'ensures'):
        if key in kw and isinstance(kw[key], (list, tuple)):
            kw[key] = {f'c{i}': s for i, s in enumerate(kw[key])}
    c = Contract(qualname=qualname, props=list(props), invariants=invs, **kw)
    REGISTRY.add(c)
    return c


def field_type(cls: str, name: str, ty: str):
    REGISTRY.field_types[(cls, name)] = ty
