"""pyvc -- verification-condition generator over the real Python AST of /repo.

Run under python3-vt (3.11, z3-solver 5.1).  Never imports biogeme.
"""
