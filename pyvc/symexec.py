"""Symbolic executor over the real Python AST.

Path-splitting executor with state merging at joins, contracts at call sites, loop
invariants, and a decision-replay mechanism for forks that occur inside expressions.
"""
from __future__ import annotations

import ast
import hashlib
import os
from dataclasses import dataclass, field
from typing import Any, Callable

import z3

from . import vals as VV
from .repo import ClassInfo, FuncInfo, ModuleInfo, Repo
from .state import Fork, Raised, State, Unsupported
from .vals import (join_ty, ANY, BOOL, INT, MAT, NONE, PY, REAL, STR, VEC, I, R, T, TDict, TList,
                   TOpt, TRef, TSet, TTuple, V, Val, as_atom, as_bool_raw, as_int, as_real,
                   as_ref, fresh_int, fresh_name, fresh_val, is_none, parse_type,
                   type_invariant, uf, v_any, v_bool, v_int, v_none, v_py, v_real, v_ref,
                   v_str, v_tuple)

MAX_UNROLL = 24
MAX_INLINE_DEPTH = 4

BUILTIN_EXC = {
    'BaseException': None, 'Exception': 'BaseException', 'ArithmeticError': 'Exception',
    'ZeroDivisionError': 'ArithmeticError', 'OverflowError': 'ArithmeticError',
    'LookupError': 'Exception', 'KeyError': 'LookupError', 'IndexError': 'LookupError',
    'ValueError': 'Exception', 'TypeError': 'Exception', 'AttributeError': 'Exception',
    'OSError': 'Exception', 'FileNotFoundError': 'OSError', 'IOError': 'Exception',
    'NotImplementedError': 'Exception', 'RuntimeError': 'Exception',
    'StopIteration': 'Exception', 'AssertionError': 'Exception',
    'np.linalg.LinAlgError': 'ValueError', 'LinAlgError': 'ValueError',
}


@dataclass
class Oblig:
    name: str
    kind: str
    hyps: list
    goal: Any
    line: int = 0
    func: str = ''
    note: str = ''
    witness: dict = field(default_factory=dict)     # label -> z3 term to evaluate in a model


@dataclass
class Outcome:
    kind: str                # normal | return | raise | break | continue
    st: State
    val: V | None = None     # return value
    exc: str | None = None   # exception class
    msg: V | None = None
    line: int = 0


class Ctx:
    def __init__(self, repo: Repo, registry, prop: str = ''):
        self.repo = repo
        self.registry = registry
        self.prop = prop
        self.obligs: list[Oblig] = []
        self.notes: list[str] = []
        self.check_safe = True
        self.nla_uf = False
        self.fn_label = ''
        self.oblig_seq: dict[str, int] = {}
        self.specs: dict[str, Callable] = {}
        self.lib = None

    def note(self, s: str):
        if s not in self.notes:
            self.notes.append(s)

    def add_oblig(self, st: State, kind: str, label: str, goal, line=0, note='', witness=None):
        base = f'{self.prop}:{self.fn_label}:{kind}' + (f':{label}' if label else '')
        n = self.oblig_seq.get(base, 0)
        self.oblig_seq[base] = n + 1
        name = base if n == 0 else f'{base}#{n}'
        g = goal
        hyps = list(st.pc)
        outer = list(st.guards)
        if st.bound and st.guards:
            # guards that mention a bound variable (the test of an IfExp / a short-circuit inside a comprehension) belong
            # INSIDE the quantifier; as free hypotheses they would say nothing about the quantified instances
            from .state import occurs
            bvars = [v for v, _ in st.bound]
            inner = [gd for gd in st.guards if any(occurs(v, gd) for v in bvars)]
            if inner:
                outer = [gd for gd in st.guards if not any(gd is x for x in inner)]
                g = z3.Implies(z3.And(*inner), g)
        for var, guard in reversed(st.bound):
            g = z3.ForAll([var], z3.Implies(guard, g))
        self.obligs.append(Oblig(name=name, kind=kind, hyps=hyps + outer, goal=g, line=line,
                                 func=self.fn_label, note=note, witness=witness or {}))


class Frame:
    """Static information of the function being executed (module for name lookup)."""

    def __init__(self, module: ModuleInfo, func: FuncInfo | None, depth=0, contract=None):
        self.module = module
        self.func = func
        self.depth = depth
        self.contract = contract
        self.loop_ordinal = 0


class Executor:
    def __init__(self, ctx: Ctx):
        self.ctx = ctx
        self.repo = ctx.repo
        self.frames: list[Frame] = []
        from . import lib
        self.lib = lib

    # ------------------------------------------------------------------ util
    @property
    def frame(self) -> Frame:
        return self.frames[-1]

    def known_class(self, n: str):
        mod = self.frame.module.name if self.frames else None
        ci = self.repo.find_class(n, mod)
        return self.repo.class_key(ci) if ci is not None else None

    def ptype(self, node) -> T:
        return parse_type(node, self.known_class)

    def decide(self, st: State, cond) -> bool:
        """Branch on a symbolic condition (forks through decision replay)."""
        c = z3.simplify(cond) if not isinstance(cond, bool) else z3.BoolVal(cond)
        if z3.is_true(c):
            return True
        if z3.is_false(c):
            return False
        if st.spec or st.bound or st.guards:
            raise Unsupported('fork under a binder/guard or inside a specification')
        if st.dpos < len(st.decisions):
            d = st.decisions[st.dpos]
            st.dpos += 1
            st.pc.append(c if d else z3.Not(c))
            return bool(d)
        raise Fork(2)

    def choose(self, st: State, n: int) -> int:
        if n == 1:
            return 0
        if st.dpos < len(st.decisions):
            d = st.decisions[st.dpos]
            st.dpos += 1
            return d
        raise Fork(n)

    # ---------------------------------------------------------- truthiness
    def truth(self, st: State, v: V):
        VV.CUR[0] = st
        k = v.kind
        if v.lit is not None and k in ('bool', 'int', 'real', 'str'):
            return z3.BoolVal(bool(v.lit))
        if k == 'bool':
            return as_bool_raw(v)
        if k in ('int', 'real'):
            return as_real(v) != 0
        if k == 'none':
            return z3.BoolVal(False)
        if k == 'str':
            return as_atom(v) != VV.ATOMS.atom('')
        if k == 'list':
            return st.list_len(v) > 0
        if k == 'dict':
            return st.list_len(v) > 0
        if k == 'set':
            x = z3.Const(fresh_name('w'), Val)
            return z3.Exists([x], z3.Select(st.set_dom(v), x))
        if k == 'tuple':
            return z3.BoolVal(bool(v.items)) if v.items is not None else v.t != Val.nil
        if k == 'ref':
            ci = self.repo.find_class(v.ty.cls) if v.ty.cls else None
            if ci is not None:
                for m in ('__bool__', '__len__'):
                    fi = self.repo.resolve_method(ci.name, m, ci.module)
                    if fi is not None:
                        r = self.call_repo_function(st, fi, [v], {}, None, recv_cls=ci.name)
                        return self.truth(st, r)
            return z3.BoolVal(True)
        if k == 'opt':
            inner = V(v.t, v.ty.args[0])
            return z3.And(z3.Not(Val.is_none(v.t)), self.truth(st, inner))
        if k == 'py':
            return z3.BoolVal(True)
        if k in ('mat', 'vec'):
            raise Unsupported('truth value of an array')
        # value of unknown kind: Python truthiness for the constructors that fix it, uninterpreted otherwise
        t = v.t
        return z3.If(Val.is_b(t), Val.bv(t),
                     z3.If(Val.is_none(t), z3.BoolVal(False),
                           z3.If(Val.is_num(t), Val.nv(t) != 0, uf('truthy', Val, VV.B)(t))))

    # ------------------------------------------------------- obligations
    def oblige(self, st: State, kind: str, label: str, goal, node=None, note=''):
        if st.spec:
            return
        if not self.ctx.check_safe and kind.startswith('safe'):
            st.assume(goal)
            return
        line = getattr(node, 'lineno', 0)
        self.ctx.add_oblig(st, kind, label, goal, line=line, note=note)
        st.assume(goal)

    # ==================================================================
    # Statements
    # ==================================================================
    def exec_block(self, st: State, stmts: list[ast.stmt]) -> list[Outcome]:
        outs: list[Outcome] = []
        live = [st]
        for stmt in stmts:
            nxt: list[State] = []
            for s in live:
                for o in self.exec_stmt(s, stmt):
                    if o.kind == 'normal':
                        nxt.append(o.st)
                    else:
                        outs.append(o)
            live = self.merge_states(nxt)
            if not live:
                break
        outs.extend(Outcome('normal', s) for s in live)
        return outs

    def exec_stmt(self, st: State, stmt: ast.stmt) -> list[Outcome]:
        outs: list[Outcome] = []
        work: list[list[int]] = [[]]
        saved = (st.decisions, st.dpos)
        n_obl = len(self.ctx.obligs)
        seq_snapshot = dict(self.ctx.oblig_seq)
        while work:
            dec = work.pop()
            s = st.copy()
            s.decisions, s.dpos = dec, 0
            mark = len(self.ctx.obligs)
            seq_mark = dict(self.ctx.oblig_seq)
            loop_mark = self.frame.loop_ordinal
            try:
                res = self._stmt(s, stmt)
            except Fork as f:
                # discard obligations produced by the aborted attempt, re-run per decision
                del self.ctx.obligs[mark:]
                self.ctx.oblig_seq = seq_mark
                self.frame.loop_ordinal = loop_mark
                for d in range(f.n - 1, -1, -1):
                    work.append(dec + [d])
                continue
            except Raised as r:
                res = [Outcome('raise', s, exc=r.cls, msg=r.msg, line=getattr(stmt, 'lineno', 0))]
            for o in res:
                o.st.decisions, o.st.dpos = saved
            outs.extend(res)
            if work:
                self.frame.loop_ordinal = loop_mark
        return outs

    # ------------------------------------------------------------------
    def _stmt(self, st: State, node: ast.stmt) -> list[Outcome]:
        VV.CUR[0] = st
        m = getattr(self, '_s_' + type(node).__name__, None)
        if m is None:
            raise Unsupported(f'statement {type(node).__name__} at line {node.lineno}')
        return m(st, node)

    def _s_Pass(self, st, node):
        return [Outcome('normal', st)]

    def _s_Expr(self, st, node):
        if isinstance(node.value, ast.Constant):
            return [Outcome('normal', st)]           # docstring
        if self.is_dropped_call(node.value):
            # the call is dropped, but its arguments are evaluated eagerly by Python: a local read there must be bound
            # (UnboundLocalError otherwise), and a name that exists nowhere is a NameError
            fn_node = self.frame.func.node if self.frame.func is not None else None
            for n in ast.walk(node.value):
                if isinstance(n, ast.Name) and isinstance(n.ctx, ast.Load):
                    if n.id in st.unbound and n.id in st.locals:
                        self.lookup(st, n.id, n)
                    elif n.id not in st.locals and fn_node is not None and any(
                            isinstance(x, ast.Name) and isinstance(x.ctx, ast.Store) and x.id == n.id for x in ast.walk(fn_node)):
                        # a local of this function that no statement of the current path has bound
                        raise Unsupported(f'unknown name {n.id} (line {n.lineno}): read by a dropped logging call')
            return [Outcome('normal', st)]
        self.ev(st, node.value)
        return [Outcome('normal', st)]

    def is_dropped_call(self, e) -> bool:
        """logger.* and warnings.warn calls are dropped (stated in DESIGN 1.3)."""
        if isinstance(e, ast.Call):
            f = e.func
            if isinstance(f, ast.Attribute) and isinstance(f.value, ast.Name):
                if f.value.id == 'logger':
                    return True
                if f.value.id == 'warnings' and f.attr == 'warn':
                    return True
        return False

    def _s_Return(self, st, node):
        v = self.ev(st, node.value) if node.value is not None else v_none()
        return [Outcome('return', st, val=v, line=node.lineno)]

    def _s_Raise(self, st, node):
        if node.exc is None:
            raise Unsupported('bare raise')
        exc = node.exc
        msg = None
        if isinstance(exc, ast.Call):
            cls = self.exc_name(st, exc.func)
            if exc.args:
                try:
                    msg = self.ev(st, exc.args[0])
                except Unsupported as e:
                    # the TEXT of a message may be beyond the string model, but a message built from an unbound name
                    # raises NameError / UnboundLocalError instead of the named exception: not swallowed
                    if str(e).startswith('unknown name'):
                        raise
                    msg = None
        else:
            cls = self.exc_name(st, exc)
        return [Outcome('raise', st, exc=cls, msg=msg, line=node.lineno)]

    def exc_name(self, st, node) -> str:
        txt = ast.unparse(node)
        base = txt.split('.')[-1]
        if isinstance(node, ast.Name) and node.id in st.locals:
            v = st.locals[node.id]
            if v.py and v.py[0] == 'excinst':
                return v.py[1]
        return base

    def exc_matches(self, raised: str, handler: str) -> bool:
        if handler in ('Exception', 'BaseException'):
            return True
        cur = raised
        seen = set()
        while cur and cur not in seen:
            seen.add(cur)
            if cur == handler:
                return True
            if cur in BUILTIN_EXC:
                cur = BUILTIN_EXC[cur]
                continue
            ci = self.repo.find_class(cur)
            if ci is None or not ci.bases:
                return False
            cur = ci.bases[0].split('.')[-1]
        return False

    def _s_Assign(self, st, node):
        v = self.ev(st, node.value)
        for tgt in node.targets:
            self.assign(st, tgt, v)
        return [Outcome('normal', st)]

    def _s_AnnAssign(self, st, node):
        if node.value is None:
            return [Outcome('normal', st)]
        v = self.ev(st, node.value)
        ty = self.ptype(node.annotation)
        if v.kind == 'any' and ty.kind != 'any':
            v = v.with_ty(ty)
            # A-ANNOT: a local annotation of the real code is trusted as a type assumption (listed: it excludes e.g. a None
            # value of a non-Optional annotation)
            self.ctx.note(f'A-ANNOT: `{ast.unparse(node.target)}: {ast.unparse(node.annotation)}` trusted for a value of unknown type '
                          f'({self.frame.func.qualname if self.frame.func else "?"})')
            st.assume_type(v)
        elif v.kind == 'list' and ty.kind == 'list' and v.ty.args and v.ty.args[0].kind == 'any':
            v = v.with_ty(ty)
        elif v.kind == 'dict' and ty.kind == 'dict' and v.ty.args and v.ty.args[0].kind == 'any':
            v = v.with_ty(ty)
        self.assign(st, node.target, v)
        return [Outcome('normal', st)]

    def _s_AugAssign(self, st, node):
        cur = self.ev(st, node.target)
        rhs = self.ev(st, node.value)
        if cur.kind == 'list' and isinstance(node.op, ast.Add):
            # in-place extend
            self.lib.list_extend(self, st, cur, rhs)
            return [Outcome('normal', st)]
        v = self.binop(st, node.op, cur, rhs, node)
        self.assign(st, node.target, v)
        return [Outcome('normal', st)]

    def assign(self, st: State, tgt, v: V):
        VV.CUR[0] = st
        if isinstance(tgt, ast.Name):
            st.locals[tgt.id] = v
            if st.unbound:
                st.unbound.pop(tgt.id, None)
        elif isinstance(tgt, ast.Attribute):
            obj = self.ev(st, tgt.value)
            self.store_attr(st, obj, tgt.attr, v, tgt)
        elif isinstance(tgt, (ast.Tuple, ast.List)):
            items = self.unpack(st, v, len(tgt.elts), tgt)
            for t, it in zip(tgt.elts, items):
                self.assign(st, t, it)
        elif isinstance(tgt, ast.Subscript):
            obj = self.ev(st, tgt.value)
            self.store_subscript(st, obj, tgt.slice, v, tgt)
        elif isinstance(tgt, ast.Starred):
            raise Unsupported('starred assignment')
        else:
            raise Unsupported(f'assignment target {type(tgt).__name__}')

    def unpack(self, st, v: V, n: int, node) -> list[V]:
        if v.items is not None and v.kind == 'tuple':
            if len(v.items) != n:
                raise Unsupported('tuple arity mismatch')
            return v.items
        if v.kind == 'tuple' or v.kind == 'any':
            out, t = [], v.t
            tys = v.ty.args if (v.kind == 'tuple' and len(v.ty.args) == n) else [ANY] * n
            for k in range(n):
                out.append(V(Val.hd(t), tys[k]))
                t = Val.tl(t)
            return out
        if v.kind == 'list':
            if v.items is not None and len(v.items) == n:
                return v.items
            return [st.list_get(v, z3.IntVal(k)) for k in range(n)]
        raise Unsupported(f'unpack of {v.kind}')

    def store_attr(self, st, obj: V, name: str, v: V, node):
        if obj.kind == 'py':
            raise Unsupported(f'store to attribute of {obj.py}')
        if obj.kind == 'none':
            raise Raised('AttributeError')
        if obj.kind == 'opt':
            self.oblige(st, 'safe:none', name, z3.Not(Val.is_none(obj.t)), node)
        # The declared type of a field is assumed when the field is READ.  That is only sound while every value this function
        # stores into it is known to have that type: otherwise (e.g. `self.x: float = ... else None`) later reads must not
        # assume the declaration any more (the state would become inconsistent and obligations vacuous).
        cls_ = obj.ty.cls if obj.kind in ('ref', 'opt') else None
        if obj.kind == 'opt' and obj.ty.args:
            cls_ = obj.ty.args[0].cls
        fty = self.field_ty(cls_, name) if cls_ else ANY
        if fty.kind != 'any' and not self.fits_declared(v, fty):
            st.untyped_fields.add(name)
            self.ctx.note(f'declared type of field {name} not relied upon after a store of a {v.kind} value')
        st.write(as_ref(obj), name, self.box(st, v))

    @staticmethod
    def fits_declared(v: V, fty) -> bool:
        """Is a value of static kind v.kind known to satisfy the declared field type fty?"""
        k, fk = v.kind, fty.kind
        if fk == 'opt':
            inner = fty.args[0]
            return k == 'none' or (k == 'opt' and Executor.fits_declared(V(v.t, v.ty.args[0]), inner)) or Executor.fits_declared(v, inner)
        if k == fk:
            if k == 'ref':
                return True       # class membership is not part of the type facts assumed on reads
            return True
        if fk == 'real' and k in ('int', 'bool'):
            return True
        if fk == 'int' and k == 'bool':
            return True
        return False

    def box(self, st, v: V):
        """Val term of a value that is going to be stored in the heap / a container."""
        if v.kind == 'py':
            # functions / classes / enum members stored in containers or compared with symbolic values: an opaque
            # constant per object; it is no None / number / string / bool, and the constants of different objects differ
            key = repr(v.py)[:200]
            c = z3.Const('pyobj!' + hashlib.md5(key.encode()).hexdigest()[:10], Val)
            seen = self.ctx.__dict__.setdefault('pyobjs', {})
            if key not in seen:
                seen[key] = c
            for f in (z3.Not(Val.is_none(c)), z3.Not(Val.is_num(c)), z3.Not(Val.is_s(c)), z3.Not(Val.is_b(c))):
                st.assume(f)
            others = [o for k_, o in seen.items() if k_ != key]
            if v.py and v.py[0] == 'enum':
                ci = self.repo.find_class(v.py[1])
                for n in (ci.class_attrs if ci is not None else []):
                    k2 = repr(('enum', v.py[1], n))[:200]
                    if k2 != key and k2 not in seen:
                        seen[k2] = z3.Const('pyobj!' + hashlib.md5(k2.encode()).hexdigest()[:10], Val)
                        others.append(seen[k2])
            if others:
                st.assume(z3.And(*[c != o for o in others]))
            return c
        return v.t

    def store_subscript(self, st, obj: V, sl, v: V, node):
        obj = self.unopt(st, obj, node, 'subscript-store')
        if obj.kind == 'dict':
            key = self.ev(st, sl)
            st.dict_set(obj, key, v)
            return
        if obj.kind == 'list':
            idx = self.ev(st, sl)
            i = as_int(idx)
            n = st.list_len(obj)
            i = z3.If(i < 0, i + n, i)
            self.oblige(st, 'safe:index', '', z3.And(i >= 0, i < n), node)
            r = as_ref(obj)
            st.write(r, '$elems', z3.Store(st.read(r, '$elems'), i, self.box(st, v)))
            obj.items = None
            return
        raise Unsupported(f'subscript store on {obj.kind}')

    # -- control flow ------------------------------------------------------
    def _s_If(self, st, node):
        c = self.truth(st, self.ev(st, node.test))
        c = z3.simplify(c)
        outs = []
        if z3.is_true(c):
            return self.exec_block(st, node.body)
        if z3.is_false(c):
            return self.exec_block(st, node.orelse)
        s1 = st.copy()
        s1.pc.append(c)
        s2 = st.copy()
        s2.pc.append(z3.Not(c))
        outs = self.exec_block(s1, node.body) + self.exec_block(s2, node.orelse)
        return self.merge_outcomes(outs)

    def _s_Assert(self, st, node):
        c = self.truth(st, self.ev(st, node.test))
        self.oblige(st, 'assert', '', c, node)
        return [Outcome('normal', st)]

    def _s_Break(self, st, node):
        return [Outcome('break', st)]

    def _s_Continue(self, st, node):
        return [Outcome('continue', st)]

    def _s_Import(self, st, node):
        return [Outcome('normal', st)]

    def _s_ImportFrom(self, st, node):
        return [Outcome('normal', st)]

    def _s_Global(self, st, node):
        return [Outcome('normal', st)]

    def _s_Delete(self, st, node):
        raise Unsupported('del')

    def _s_FunctionDef(self, st, node):
        st.locals[node.name] = v_py(('closure', node, dict(st.locals), self.frame.module))
        return [Outcome('normal', st)]

    def _s_Try(self, st, node):
        if node.finalbody:
            raise Unsupported('try/finally')
        caught = set()
        for h in node.handlers:
            if h.type is None:
                caught.add('BaseException')
            elif isinstance(h.type, ast.Tuple):
                caught |= {ast.unparse(e).split('.')[-1] for e in h.type.elts}
            else:
                caught.add(ast.unparse(h.type).split('.')[-1])
        st.try_stack.append(caught)
        body_outs = self.exec_block(st, node.body)
        outs = []
        for o in body_outs:
            o.st.try_stack = o.st.try_stack[:-1] if o.st.try_stack else []
            if o.kind == 'raise':
                handled = False
                for h in node.handlers:
                    names = (['BaseException'] if h.type is None else
                             [ast.unparse(e).split('.')[-1] for e in
                              (h.type.elts if isinstance(h.type, ast.Tuple) else [h.type])])
                    if any(self.exc_matches(o.exc, n) for n in names):
                        s = o.st
                        if h.name:
                            s.locals[h.name] = v_py(('excinst', o.exc, o.msg))
                        outs.extend(self.exec_block(s, h.body))
                        handled = True
                        break
                if not handled:
                    outs.append(o)
            elif o.kind == 'normal' and node.orelse:
                outs.extend(self.exec_block(o.st, node.orelse))
            else:
                outs.append(o)
        return self.merge_outcomes(outs)

    def catches(self, st: State, exc: str) -> bool:
        return any(any(self.exc_matches(exc, h) for h in frame) for frame in st.try_stack)

    def _s_With(self, st, node):
        return self.lib.exec_with(self, st, node)

    # -- loops -----------------------------------------------------------------
    def _s_For(self, st, node):
        if node.orelse:
            raise Unsupported('for/else')
        self.frame.loop_ordinal += 1
        ordinal = self.frame.loop_ordinal
        itv = self.ev(st, node.iter)
        view = self.lib.iter_view(self, st, itv, node.iter)
        n_c = self.concrete_int(view.n)
        inv = self.loop_invariant(ordinal)
        if n_c is None and inv is None and not st.spec:
            n_c = self.entailed_int(st, view.n)
        if n_c is not None and n_c <= MAX_UNROLL and inv is None:
            return self.unroll_for(st, node, view, n_c)
        return self.invariant_for(st, node, view, ordinal, inv)

    def entailed_int(self, st: State, t):
        """The value of an Int term when the path condition entails a unique small one
        (e.g. `len(self.children) == 2` from a precondition): lets fixed-arity loops unroll.
        Candidates are refuted one by one (unsat checks only: robust with quantified facts)."""
        from .verify import heap_closure
        base = [h for h in st.pc] + heap_closure(st) + VV.ATOMS.axioms()
        cands = list(dict.fromkeys(getattr(self, '_last_entailed', []) + [1, 2, 0, 3, 4]))
        for c in cands:
            s = z3.Solver()
            s.set('timeout', 800)
            s.add(*base)
            s.add(t != c)
            if str(s.check()) == 'unsat':
                st.pc.append(t == c)
                self._last_entailed = [c]
                return c
        return None

    def concrete_int(self, t):
        t = z3.simplify(t)
        if z3.is_int_value(t):
            return t.as_long()
        return None

    def loop_invariant(self, ordinal: int):
        c = self.frame.contract
        if c is None or self.frame.depth > 0:
            return None
        return c.invariants.get(ordinal)

    def unroll_for(self, st, node, view, n: int):
        outs = []
        live = [st]
        for k in range(n):
            nxt = []
            for s in live:
                self.assign(s, node.target, view.get(s, z3.IntVal(k)))
                for o in self.exec_block(s, node.body):
                    if o.kind in ('normal', 'continue'):
                        nxt.append(o.st)
                    elif o.kind == 'break':
                        outs.append(Outcome('normal', o.st))
                    else:
                        outs.append(o)
            live = self.merge_states(nxt)
        outs.extend(Outcome('normal', s) for s in live)
        return self.merge_outcomes(outs)

    def modified_in(self, stmts) -> tuple[set[str], set[str], bool]:
        """Syntactic over-approximation of what a loop body modifies:
        (local names, heap field names, calls_present)."""
        names, fields = set(), set()
        calls = False
        for st_ in stmts:
            for n in ast.walk(st_):
                if isinstance(n, (ast.Assign, ast.AugAssign, ast.AnnAssign, ast.For,
                                  ast.comprehension, ast.NamedExpr, ast.withitem)):
                    tg = []
                    if isinstance(n, ast.Assign):
                        tg = n.targets
                    elif isinstance(n, ast.withitem):
                        tg = [n.optional_vars] if n.optional_vars is not None else []
                    else:
                        tg = [n.target]
                    for t in tg:
                        for s in ast.walk(t):
                            if isinstance(s, ast.Name) and isinstance(s.ctx, ast.Store):
                                names.add(s.id)
                            if isinstance(s, ast.Name) and isinstance(n, ast.AugAssign) and s is n.target:
                                names.add(s.id)
                            if isinstance(s, ast.Attribute) and isinstance(s.ctx, ast.Store):
                                fields.add(s.attr)
                            if isinstance(s, ast.Subscript) and isinstance(s.ctx, ast.Store):
                                fields.update(('$elems', '$len', '$dom', '$map'))
                if isinstance(n, ast.Call):
                    calls = True
        return names, fields, calls

    def written_fields(self, st: State, run_body, seed_fields: set[str]) -> set[str]:
        """Heap fields one iteration may write, by trial execution on a havocked state
        (fixpoint; obligations of the trial runs are discarded).  Also infers, per field,
        a frame: `self.loop_frame[f]` = list of pre-existing references that may be written
        (loop-invariant terms); every other pre-existing object keeps its value."""
        from .state import occurs
        S = set(seed_fields)
        self.loop_frame = {}
        self.loop_local_ty = {}
        for _ in range(6):
            trial = st.copy()
            tconsts = []
            for f in S:
                cur = trial.field(f)
                c = z3.Const(fresh_name(f'T!{f}'), cur.sort())
                trial.heap[f] = c
                tconsts.append(c)
            before = dict(trial.heap)
            mark = len(self.ctx.obligs)
            seq_mark = dict(self.ctx.oblig_seq)
            loop_mark = self.frame.loop_ordinal
            self.trial_consts = tconsts
            try:
                outs = run_body(trial)
            finally:
                del self.ctx.obligs[mark:]
                self.ctx.oblig_seq = seq_mark
                self.frame.loop_ordinal = loop_mark
            tconsts = self.trial_consts
            written = set()
            frames: dict[str, list | None] = {}
            for o in outs:
                if o.kind in ('normal', 'continue'):
                    for nme, lv in o.st.locals.items():
                        if nme in st.locals:
                            self.loop_local_ty[nme] = join_ty(self.loop_local_ty.get(nme, st.locals[nme].ty), lv.ty)
            for o in outs:
                new_fresh = o.st.fresh - st.fresh
                for f, arr in o.st.heap.items():
                    if f not in before and f in o.st.heap0 and arr.eq(o.st.heap0[f]):
                        continue      # first read inside the body, never stored
                    if f not in before or not arr.eq(before[f]):
                        written.add(f)
                        tg = None
                        if f in before:
                            tg = self.store_targets(arr, before[f], new_fresh, o.st.havoc_parent)
                        if tg is not None:
                            tg = [t for t in tg]
                            if any(any(occurs(c, t) for c in tconsts) for t in tg):
                                tg = None
                        if tg is None or frames.get(f, []) is None:
                            frames[f] = None
                        else:
                            cur_l = frames.setdefault(f, [])
                            for t in tg:
                                if not any(t.eq(x) for x in cur_l):
                                    cur_l.append(t)
            if written <= S:
                self.loop_frame = {f: frames.get(f, []) for f in S if frames.get(f, []) is not None}
                return S
            S |= written
        self.loop_frame = {}
        return S | set(st.heap.keys())

    def store_targets(self, arr, base, fresh_ids: set, parents: dict | None = None):
        """`arr` is `base` updated by stores: the list of store targets that are not freshly
        allocated references; None when the update is not a chain of stores."""
        seen = set()
        todo = [arr]
        targets = []
        while todo:
            a = todo.pop()
            if a.get_id() in seen:
                continue
            seen.add(a.get_id())
            if a.eq(base):
                continue
            if z3.is_app(a) and a.decl().kind() == z3.Z3_OP_STORE:
                if a.arg(1).get_id() not in fresh_ids:
                    targets.append(a.arg(1))
                todo.append(a.arg(0))
            elif z3.is_app(a) and a.decl().kind() == z3.Z3_OP_ITE:
                todo.append(a.arg(1))
                todo.append(a.arg(2))
            elif parents and a.get_id() in parents:
                par, excl = parents[a.get_id()]
                targets.extend(excl)
                todo.append(par)
            else:
                return None
        return targets

    def havoc_fields(self, hs: State, st: State, heap_mod: set, frame: dict):
        if '$len' in heap_mod or '$elems' in heap_mod:
            hs.snap = {}
        for f in heap_mod:
            cur = hs.field(f)
            new = z3.Const(fresh_name(f'H!{f}'), cur.sort())
            hs.heap[f] = new
            if f in frame:
                # objects that existed before the loop and are not among the (loop-invariant)
                # store targets keep their value
                r = z3.Int(fresh_name('r'))
                excl = [r != t for t in frame[f]]
                hs.pc.append(z3.ForAll([r], z3.Implies(z3.And(r < st.alloc, *excl),
                                                      z3.Select(new, r) == z3.Select(cur, r))))
                hs.havoc_parent[new.get_id()] = (cur, list(frame[f]))

    def invariant_for(self, st, node, view, ordinal, inv):
        """Hoare rule: inv(0) at entry; havoc; assume inv(k), 0<=k<n; body; assert inv(k+1);
        after the loop assume inv(n)."""
        ctx = self.ctx
        mod_names, mod_fields, calls = self.modified_in(node.body)
        for t in ast.walk(node.target):
            if isinstance(t, ast.Name):
                mod_names.add(t.id)
        inv_clauses = inv.clauses if inv is not None else {}
        extra_fields = set(inv.modifies) if inv is not None else set()
        n = view.n
        # 1. invariant holds initially
        for label, src in inv_clauses.items():
            self.spec_goal(st, 'inv-init', f'L{ordinal}:{label}', src, {'_k': v_int(z3.IntVal(0)), '_n': v_int(n)}, line=node.lineno)
        # 2. havoc
        pre_heap = dict(st.heap)
        hs = st.copy()
        heap_mod = set(mod_fields) | extra_fields
        alloc_only = {}
        def run_body(trial):
            for name in mod_names:
                if name in trial.locals:
                    trial.locals[name] = V(fresh_val(name), trial.locals[name].ty)
                    self.trial_consts.append(trial.locals[name].t)
            kk = fresh_int('k')
            self.trial_consts.append(kk)
            trial.assume(z3.And(kk >= 0, kk < n))
            trial.mark_nonneg(kk)
            self.assign(trial, node.target, view.get(trial, kk))
            return self.exec_block(trial, node.body)
        trial_mod = self.written_fields(st, run_body, heap_mod)
        local_ty = dict(self.loop_local_ty)
        if inv is not None and inv.modifies_exact:
            heap_mod = set(inv.modifies)
        else:
            heap_mod = trial_mod
            alloc_only = dict(self.loop_frame)
        self.havoc_fields(hs, st, heap_mod, alloc_only)
        for name in mod_names:
            if name in hs.locals:
                old = hs.locals[name]
                nv = V(fresh_val(name), local_ty.get(name, old.ty))
                hs.locals[name] = nv
                hs.assume_type(nv)
        hs.alloc = fresh_int('alloc')
        hs.assume(hs.alloc >= st.alloc)
        k = fresh_int('k')
        env_k = {'_k': v_int(k), '_n': v_int(n)}
        hs.assume(z3.And(k >= 0, k <= n))
        hs.mark_nonneg(k)
        for label, src in inv_clauses.items():
            hs.assume(self.spec_bool(hs, src, env_k))
        # 3. exit state: k == n
        ex = hs.copy()
        ex.assume(k == n)
        outs = [Outcome('normal', ex)]
        # 4. body
        bs = hs.copy()
        bs.assume(k < n)
        self.assign(bs, node.target, view.get(bs, k))
        env_k1 = {'_k': v_int(k + 1), '_n': v_int(n)}
        for o in self.exec_block(bs, node.body):
            if o.kind in ('normal', 'continue'):
                for label, src in inv_clauses.items():
                    self.spec_goal(o.st, 'inv-step', f'L{ordinal}:{label}', src, env_k1, line=node.lineno)
            elif o.kind == 'break':
                outs.append(Outcome('normal', o.st))
            else:
                outs.append(o)
        return outs

    def _s_While(self, st, node):
        if node.orelse:
            raise Unsupported('while/else')
        self.frame.loop_ordinal += 1
        ordinal = self.frame.loop_ordinal
        inv = self.loop_invariant(ordinal)
        ctx = self.ctx
        mod_names, mod_fields, calls = self.modified_in(node.body)
        inv_clauses = inv.clauses if inv is not None else {}
        for label, src in inv_clauses.items():
            self.spec_goal(st, 'inv-init', f'L{ordinal}:{label}', src, {}, line=node.lineno)
        hs = st.copy()
        heap_mod = set(mod_fields) | (set(inv.modifies) if inv is not None else set())
        alloc_only = {}
        def run_body(trial):
            for name in mod_names:
                if name in trial.locals:
                    trial.locals[name] = V(fresh_val(name), trial.locals[name].ty)
                    self.trial_consts.append(trial.locals[name].t)
            c_ = self.truth(trial, self.ev(trial, node.test))
            trial.pc.append(c_)
            return self.exec_block(trial, node.body)
        trial_mod = self.written_fields(st, run_body, heap_mod)
        local_ty = dict(self.loop_local_ty)
        if inv is not None and inv.modifies_exact:
            heap_mod = set(inv.modifies)
        else:
            heap_mod = trial_mod
            alloc_only = dict(self.loop_frame)
        self.havoc_fields(hs, st, heap_mod, alloc_only)
        for name in mod_names:
            if name in hs.locals:
                old = hs.locals[name]
                nv = V(fresh_val(name), local_ty.get(name, old.ty))
                hs.locals[name] = nv
                hs.assume_type(nv)
        hs.alloc = fresh_int('alloc')
        hs.assume(hs.alloc >= st.alloc)
        for label, src in inv_clauses.items():
            hs.assume(self.spec_bool(hs, src, {}))
        # evaluate the guard once on the havocked state
        gs = hs.copy()
        c = self.truth(gs, self.ev(gs, node.test))
        ex = gs.copy()
        ex.pc.append(z3.Not(c))
        outs = [Outcome('normal', ex)]
        bs = gs.copy()
        bs.pc.append(c)
        for o in self.exec_block(bs, node.body):
            if o.kind in ('normal', 'continue'):
                for label, src in inv_clauses.items():
                    self.spec_goal(o.st, 'inv-step', f'L{ordinal}:{label}', src, {}, line=node.lineno)
            elif o.kind == 'break':
                outs.append(Outcome('normal', o.st))
            else:
                outs.append(o)
        return outs

    # -- merging -----------------------------------------------------------
    def merge_outcomes(self, outs: list[Outcome]) -> list[Outcome]:
        normals = [o.st for o in outs if o.kind == 'normal']
        rest = [o for o in outs if o.kind != 'normal']
        merged = self.merge_states(normals)
        return [Outcome('normal', s) for s in merged] + rest

    def merge_states(self, states: list[State]) -> list[State]:
        if len(states) <= 1:
            return states
        # common pc prefix (by term identity)
        base = states[0].pc
        plen = len(base)
        for s in states[1:]:
            k = 0
            while k < plen and k < len(s.pc) and s.pc[k].eq(base[k]):
                k += 1
            plen = k
        conds = []
        hoisted = []
        from .verify import has_quantifier
        for s in states:
            rest = s.pc[plen:]
            qf = [h for h in rest if not has_quantifier(h)]
            qn = [h for h in rest if has_quantifier(h)]
            if qn:
                # quantified facts of one branch are kept outside the disjunction, guarded by a
                # fresh selector p_i that is part of the branch condition: c_i = p_i /\ QF_i and
                # (p_i -> U_i).  (The quantified part may itself be the branch test, e.g. `if s:`
                # for a set, so QF_i alone is NOT the branch condition.)
                p_i = z3.Bool(fresh_name('branch'))
                c = z3.And(p_i, *qf)
                hoisted.append(z3.Implies(p_i, z3.And(*qn)))
            else:
                c = z3.And(*qf) if qf else z3.BoolVal(True)
            conds.append(c)
        m = states[0].copy()
        m.pc = list(base[:plen])
        for s in states[1:]:
            m.snap = {k: v for k, v in m.snap.items() if k in s.snap and s.snap[k][0] is v[0] and s.snap[k][1] is v[1]}
        for s in states[1:]:
            m.fresh |= s.fresh
            m.nonneg |= s.nonneg
            m._typed &= s._typed
            m.havoc_parent.update(s.havoc_parent)
            m.untyped_fields |= s.untyped_fields
        # locals (a name bound on some paths only is arbitrary on the others)
        names = set()
        for s in states:
            names |= set(s.locals)
        new_locals = {}
        new_unbound = {}
        for nme in names:
            vs = [s.locals[nme] if nme in s.locals else V(fresh_val('undef!' + nme), ANY) for s in states]
            mv = self.merge_vals(vs, conds)
            if mv is None:
                return states          # cannot merge: keep paths separate
            new_locals[nme] = mv
            # reading the name later raises UnboundLocalError on the paths that did not bind it: remembered as a condition,
            # turned into the obligation safe:bound:<name> by the next load (cleared by the next assignment)
            ub = [c if nme not in s.locals else z3.And(c, s.unbound[nme])
                  for s, c in zip(states, conds) if nme not in s.locals or nme in s.unbound]
            if ub:
                new_unbound[nme] = z3.Or(*ub) if len(ub) > 1 else ub[0]
        m.locals = new_locals
        m.unbound = new_unbound
        # heap
        fields = set()
        for s in states:
            fields |= set(s.heap)
        for f in fields:
            arrs = [s.field(f) for s in states]
            cur = arrs[-1]
            for a, c in zip(reversed(arrs[:-1]), reversed(conds[:-1])):
                cur = a if a.eq(cur) else z3.If(c, a, cur)
            m.heap[f] = cur
        # alloc
        cur = states[-1].alloc
        for s, c in zip(reversed(states[:-1]), reversed(conds[:-1])):
            cur = s.alloc if s.alloc.eq(cur) else z3.If(c, s.alloc, cur)
        m.alloc = cur
        m.pc.append(z3.Or(*conds))
        m.pc.extend(hoisted)
        gh = states[0].ghost
        for s in states[1:]:
            if set(s.ghost) != set(gh):
                return states
        for gk in gh:
            vals_ = [s.ghost[gk] for s in states]
            if all(z3.is_expr(x) for x in vals_):
                cur = vals_[-1]
                for a, c in zip(reversed(vals_[:-1]), reversed(conds[:-1])):
                    cur = a if a.eq(cur) else z3.If(c, a, cur)
                m.ghost[gk] = cur
            elif any(x is not vals_[0] for x in vals_):
                return states
        return [m]

    def merge_vals(self, vs: list[V], conds) -> V | None:
        first = vs[0]
        if all(v is first or (v.t is not None and first.t is not None and v.t.eq(first.t) and v.ty == first.ty) for v in vs):
            return first
        if any(v.kind == 'py' for v in vs):
            if all(v.kind == 'py' and v.py == first.py for v in vs):
                return first
            return None
        # tuples of the same arity merge pointwise
        if all(v.kind == 'tuple' and v.items is not None and len(v.items) == len(first.items or []) for v in vs) and first.items is not None:
            items = []
            for k in range(len(first.items)):
                mv = self.merge_vals([v.items[k] for v in vs], conds)
                if mv is None:
                    return None
                items.append(mv)
            return v_tuple(items)
        ty = vs[0].ty
        for v in vs[1:]:
            ty = join_ty(ty, v.ty)
        cur = vs[-1].t
        for v, c in zip(reversed(vs[:-1]), reversed(conds[:-1])):
            cur = v.t if v.t.eq(cur) else z3.If(c, v.t, cur)
        lit = first.lit if all(v.lit is not None and v.lit == first.lit and type(v.lit) is type(first.lit) for v in vs) else None
        return V(cur, ty, lit=lit)

    # ==================================================================
    # Expressions
    # ==================================================================
    def ev(self, st: State, node: ast.expr) -> V:
        VV.CUR[0] = st
        m = getattr(self, '_e_' + type(node).__name__, None)
        if m is None:
            raise Unsupported(f'expression {type(node).__name__} at line {getattr(node, "lineno", 0)}')
        return m(st, node)

    def _e_Constant(self, st, node):
        c = node.value
        if c is None:
            return v_none()
        if isinstance(c, bool):
            return v_bool(c)
        if isinstance(c, int):
            return v_int(c)
        if isinstance(c, float):
            return v_real(c)
        if isinstance(c, str):
            return v_str(c)
        if isinstance(c, bytes):
            return v_str(c.decode('latin1'))
        if c is Ellipsis:
            return v_py(('ellipsis',))
        raise Unsupported(f'constant {c!r}')

    def _e_Name(self, st, node):
        return self.lookup(st, node.id, node)

    def lookup(self, st: State, name: str, node=None) -> V:
        loc = st.locals0 if st.use_old else st.locals
        if name in loc:
            if st.unbound and name in st.unbound and not st.spec and loc is st.locals:
                cond = st.unbound.pop(name)
                self.oblige(st, 'safe:bound', name, z3.Not(cond), node,
                            note=f'local {name} is bound on every path that reaches this use (else UnboundLocalError)')
            return loc[name]
        if name in st.locals:
            return st.locals[name]
        if st.spec and name in self.lib.SPEC_BUILTINS:
            return v_py(('specfn', name))
        if st.spec and name in self.ctx.specs:
            return v_py(('spec', name))
        fr = self.frame
        mi = fr.module
        if fr.func is not None and fr.func.cls is None:
            pass
        if name in mi.functions:
            return v_py(('func', mi.functions[name]))
        if name in mi.classes:
            return v_py(('class', mi.classes[name]))
        if name in mi.imports:
            return self.import_target(mi.imports[name])
        if name in mi.globals_:
            g = mi.globals_[name]
            # module-level constant: evaluate in an empty local scope
            sub = st.copy()
            sub.locals = {}
            v = self.ev(sub, g)
            st.pc = sub.pc
            st.heap = sub.heap
            st.alloc = sub.alloc
            return v
        if name in self.lib.BUILTINS:
            return v_py(('builtin', name))
        if name in BUILTIN_EXC:
            return v_py(('exc', name))
        if name in self.ctx.specs:
            return v_py(('spec', name))
        if self.repo.find_class(name) is not None and st.spec:
            return v_py(('class', self.repo.find_class(name)))
        raise Unsupported(f'unknown name {name} (line {getattr(node, "lineno", 0)})')

    def import_target(self, dotted: str) -> V:
        """What a dotted import path denotes."""
        if dotted in self.repo.modules:
            return v_py(('module', dotted))
        parts = dotted.split('.')
        mod, last = '.'.join(parts[:-1]), parts[-1]
        if mod in self.repo.modules:
            mi = self.repo.modules[mod]
            if last in mi.functions:
                return v_py(('func', mi.functions[last]))
            if last in mi.classes:
                return v_py(('class', mi.classes[last]))
            if last in mi.imports:
                return self.import_target(mi.imports[last])
            if last in mi.globals_:
                return v_py(('modglobal', mod, last))
        if parts[0] == 'biogeme' and self.repo.find_class(last) is not None:
            return v_py(('class', self.repo.find_class(last)))
        return v_py(('lib', dotted))

    def _e_Attribute(self, st, node):
        obj = self.ev(st, node.value)
        return self.get_attr(st, obj, node.attr, node)

    def get_attr(self, st, obj: V, name: str, node=None) -> V:
        k = obj.kind
        if k == 'py':
            return self.py_attr(st, obj, name, node)
        if k == 'none':
            if self.catches(st, 'AttributeError'):
                raise Raised('AttributeError')
            self.oblige(st, 'safe:none', name, z3.BoolVal(False), node,
                        note=f'attribute {name} of None')
            return v_any(fresh_val(name))
        tguard = None
        if k == 'opt':
            self.oblige(st, 'safe:none', name, z3.Not(Val.is_none(obj.t)), node,
                        note=f'attribute {name} of an optional value')
            tguard = z3.Not(Val.is_none(obj.t))     # inside a specification nothing obliges the receiver to exist
            obj = V(obj.t, obj.ty.args[0], items=obj.items)
            k = obj.kind
        if k in ('list', 'dict', 'set', 'str', 'tuple', 'mat', 'vec', 'int', 'real', 'bool'):
            return v_py(('bound', obj, name))
        if k == 'ref':
            cls = obj.ty.cls
            lh = self.lib.ref_attr(self, st, obj, name, node)
            if lh is not None:
                return lh
            fi = self.repo.resolve_method(cls, name) if cls else None
            if cls and fi is None and self.repo.find_class(cls) is None:
                rec = [flds for dotted, flds in self.lib.LIB_RECORDS.items() if dotted.split('.')[-1] == cls]
                if rec and name in rec[0]:
                    return V(st.read(as_ref(obj), name), ANY)
                # object of a library class (DataFrame, ...): methods are resolved by LIBSPEC hooks
                return v_py(('bound', obj, name))
            if fi is not None:
                if 'property' in fi.decorators:
                    return self.call_repo_function(st, fi, [obj], {}, node, recv_cls=cls)
                return v_py(('bound', obj, name))
            fty = self.field_ty(cls, name)
            r = as_ref(obj)
            v = V(st.read(r, name), fty)
            # class-level attribute?
            if cls and fty.kind == 'any':
                ci = self.repo.find_class(cls)
                if ci is not None:
                    for c in self.repo.mro(ci):
                        if name in c.class_attrs and name not in c.field_types:
                            fr = Frame(self.repo.modules[c.module], None)
                            self.frames.append(fr)
                            try:
                                return self.ev(st, c.class_attrs[name])
                            finally:
                                self.frames.pop()
            if name not in st.untyped_fields:
                st.assume_type(v, guard=tguard)
            if v.kind == 'dict' or (v.kind == 'opt' and v.ty.args[0].kind == 'dict'):
                # representation invariant of every Python dict (keys enumerate the domain once)
                dv = v if v.kind == 'dict' else V(v.t, v.ty.args[0])
                if v.kind == 'dict':
                    st.assume_wf_dict(dv)
            return v
        # any: treat as an object reference
        v = V(st.read(as_ref(obj), name), ANY)
        return v

    def field_ty(self, cls: str | None, name: str) -> T:
        if cls is None:
            return ANY
        ov = self.ctx.registry.field_types.get((cls, name))
        if ov is not None:
            return ov if isinstance(ov, T) else self.ptype(ov)
        ci = self.repo.find_class(cls)
        if ci is not None:
            for c in self.repo.mro(ci):
                ov = self.ctx.registry.field_types.get((c.name, name))
                if ov is not None:
                    return ov if isinstance(ov, T) else self.ptype(ov)
        ann = self.repo.field_type(cls, name)
        return self.ptype(ann) if ann is not None else ANY

    def py_attr(self, st, obj: V, name: str, node) -> V:
        p = obj.py
        tag = p[0]
        if tag == 'module':
            return self.import_target(p[1] + '.' + name)
        if tag == 'lib':
            h = self.lib.lib_attr(self, st, p[1], name)
            if h is not None:
                return h
            return v_py(('lib', p[1] + '.' + name))
        if tag == 'class':
            ci: ClassInfo = p[1]
            fi = self.repo.resolve_method(ci.name, name, ci.module)
            if fi is not None:
                return v_py(('func', fi))
            for c in self.repo.mro(ci):
                if name in c.class_attrs:
                    # enum-like class attribute
                    if any(b.split('.')[-1] in ('Enum', 'IntEnum') for b in c.bases):
                        return v_py(('enum', c.name, name))
                    fr = Frame(self.repo.modules[c.module], None)
                    self.frames.append(fr)
                    try:
                        return self.ev(st, c.class_attrs[name])
                    finally:
                        self.frames.pop()
            raise Unsupported(f'class attribute {ci.name}.{name}')
        if tag == 'modglobal':
            raise Unsupported(f'attribute of module global {p}')
        if tag == 'enum':
            if name in ('name',):
                return v_str(p[2])
            if name == 'value':
                ci = self.repo.find_class(p[1])
                fr = Frame(self.repo.modules[ci.module], None)
                self.frames.append(fr)
                try:
                    return self.ev(st, ci.class_attrs[p[2]])
                finally:
                    self.frames.pop()
        if tag == 'excinst':
            raise Unsupported('attribute of exception instance')
        h = self.lib.pyobj_attr(self, st, obj, name)
        if h is not None:
            return h
        raise Unsupported(f'attribute {name} of {p[:2]}')

    # -- operators -----------------------------------------------------------
    def _e_UnaryOp(self, st, node):
        v = self.ev(st, node.operand)
        if isinstance(node.op, ast.Not):
            return v_bool(z3.Not(self.truth(st, v)))
        v = self.unopt(st, v, node)
        if isinstance(node.op, ast.USub):
            if v.lit is not None and v.kind in ('int', 'real'):
                return v_int(-v.lit) if v.kind == 'int' else v_real(-v.lit)
            if v.kind == 'int':
                return v_int(-as_int(v))
            if v.kind in ('real', 'bool'):
                return v_real(-as_real(v))
            if v.kind == 'ref':
                return self.dunder(st, v, '__neg__', [], node)
            return V(uf('op_neg', Val, Val)(v.t), v.ty if v.kind in ('mat', 'vec') else ANY)
        if isinstance(node.op, ast.UAdd):
            return v
        raise Unsupported('unary op')

    def _e_BinOp(self, st, node):
        l = self.ev(st, node.left)
        r = self.ev(st, node.right)
        return self.binop(st, node.op, l, r, node)

    NUM = ('int', 'real', 'bool')

    def unopt(self, st, v: V, node, what='operand') -> V:
        """An Optional value used where a value is needed: obligation `not None`."""
        if v.kind == 'opt':
            self.oblige(st, 'safe:none', what, z3.Not(Val.is_none(v.t)), node)
            return V(v.t, v.ty.args[0], items=v.items)
        return v

    def binop(self, st, op, l: V, r: V, node) -> V:
        l, r = self.unopt(st, l, node), self.unopt(st, r, node)
        lk, rk = l.kind, r.kind
        opn = type(op).__name__
        if lk in self.NUM and rk in self.NUM:
            both_int = lk in ('int', 'bool') and rk in ('int', 'bool')
            if isinstance(op, (ast.Add, ast.Sub, ast.Mult)):
                if both_int:
                    a, b = as_int(l), as_int(r)
                    res = {'Add': a + b, 'Sub': a - b, 'Mult': a * b}[opn]
                    return v_int(z3.simplify(res))
                a, b = as_real(l), as_real(r)
                if opn == 'Mult' and self.ctx.nla_uf:
                    sa, sb = z3.simplify(a), z3.simplify(b)
                    if not z3.is_rational_value(sa) and not z3.is_rational_value(sb):
                        # A-NLA-UF: product of two symbolic reals as an uninterpreted commutative
                        # function (congruence only; weaker than real multiplication, hence sound)
                        f = uf('rmul', R, R, R)
                        if not st.ghost.get('rmul_comm'):
                            st.ghost['rmul_comm'] = True
                            qa, qb = z3.Real('rm!a'), z3.Real('rm!b')
                            st.pc.insert(0, z3.ForAll([qa, qb], f(qa, qb) == f(qb, qa), patterns=[f(qa, qb)]))
                            st.pc.insert(0, z3.ForAll([qa], z3.And(f(qa, 0) == 0, f(0, qa) == 0), patterns=[f(qa, 0), f(0, qa)]))
                            st.pc.insert(0, z3.ForAll([qa], z3.And(f(qa, 1) == qa, f(1, qa) == qa), patterns=[f(qa, 1), f(1, qa)]))
                        return v_real(f(sa, sb))
                res = {'Add': a + b, 'Sub': a - b, 'Mult': a * b}[opn]
                return v_real(z3.simplify(res))
            if isinstance(op, ast.Div):
                a, b = as_real(l), as_real(r)
                if self.catches(st, 'ZeroDivisionError'):
                    if self.decide(st, b == 0):
                        raise Raised('ZeroDivisionError')
                else:
                    self.oblige(st, 'safe:div', '', b != 0, node)
                return v_real(a / b)
            if isinstance(op, (ast.FloorDiv, ast.Mod)) and both_int:
                a, b = as_int(l), as_int(r)
                self.oblige(st, 'safe:div', '', b != 0, node)
                # Python floor semantics == z3 (Euclidean) for b > 0; for b < 0 adjust
                q = z3.If(b > 0, a / b, -((-a) / (-b)) if False else z3.If(a % b == 0, a / b, a / b - 1))
                if isinstance(op, ast.FloorDiv):
                    return v_int(q)
                return v_int(a - b * q)
            if isinstance(op, ast.Mod):
                a, b = as_real(l), as_real(r)
                return v_real(uf('fmod', R, R, R)(a, b))
            if isinstance(op, ast.Pow):
                if r.lit is not None and isinstance(r.lit, int) and 0 <= r.lit <= 4:
                    a = as_int(l) if both_int else as_real(l)
                    res = z3.IntVal(1) if both_int else z3.RealVal(1)
                    for _ in range(r.lit):
                        res = res * a
                    return v_int(res) if both_int else v_real(res)
                return v_real(uf('pow', R, R, R)(as_real(l), as_real(r)))
        if isinstance(op, ast.Add):
            if lk == 'str' and rk == 'str':
                return self.lib.str_concat(self, st, l, r)
            def seqlike(v):
                return v.kind == 'list' or (v.kind == 'py' and v.py[0] == 'specseq')
            if seqlike(l) and seqlike(r):
                return self.lib.list_concat(self, st, l, r)
            if lk == 'tuple' and rk == 'tuple' and l.items is not None and r.items is not None:
                return v_tuple(l.items + r.items)
        if isinstance(op, ast.Mult):
            if lk == 'list' and rk == 'int' and l.items is not None and r.lit is not None:
                return st.new_list(l.items * r.lit)
            if lk == 'str' and rk == 'int' and l.lit is not None and r.lit is not None:
                return v_str(l.lit * r.lit)
        if isinstance(op, ast.Mod) and lk == 'str':
            return self.lib.str_format_percent(self, st, l, r)
        if isinstance(op, ast.BitOr) and lk == 'set' and rk == 'set':
            return self.lib.set_union(self, st, l, r)
        if isinstance(op, ast.BitAnd) and lk == 'set' and rk == 'set':
            return self.lib.set_inter(self, st, l, r)
        if isinstance(op, ast.Sub) and lk == 'set' and rk == 'set':
            return self.lib.set_diff(self, st, l, r)
        if isinstance(op, ast.BitOr) and lk == 'dict' and rk == 'dict':
            return self.lib.dict_merge(self, st, l, r)
        dn = {'Add': 'add', 'Sub': 'sub', 'Mult': 'mul', 'Div': 'truediv', 'Pow': 'pow',
              'BitAnd': 'and', 'BitOr': 'or', 'Mod': 'mod', 'FloorDiv': 'floordiv',
              'MatMult': 'matmul'}.get(opn)
        if dn is None:
            raise Unsupported(f'binary operator {opn}')
        if lk == 'ref' and l.ty.cls and self.repo.resolve_method(l.ty.cls, f'__{dn}__'):
            return self.dunder(st, l, f'__{dn}__', [r], node)
        if rk == 'ref' and r.ty.cls and self.repo.resolve_method(r.ty.cls, f'__r{dn}__'):
            return self.dunder(st, r, f'__r{dn}__', [l], node)
        concrete = ('str', 'set', 'dict', 'list', 'tuple', 'none', 'bool', 'int', 'real')
        if lk in concrete and rk in concrete:
            # no rule above matched two values of KNOWN builtin kinds: in Python this is a TypeError (set + set, str - str,
            # None + 1) or a form that is not modelled (list * symbolic int): never a total uninterpreted value
            raise Unsupported(f'binary operator {opn} on kinds ({lk},{rk}): TypeError in Python, or not modelled')
        # arrays / untyped: uninterpreted, functional
        rty = ANY
        if lk in ('mat', 'vec'):
            rty = l.ty
        elif rk in ('mat', 'vec'):
            rty = r.ty
        self.ctx.note(f'uninterpreted operator op_{dn} on kinds ({lk},{rk})')
        return V(uf(f'op_{dn}', Val, Val, Val)(self.box(st, l), self.box(st, r)), rty)

    def dunder(self, st, recv: V, name: str, args: list[V], node) -> V:
        fi = self.repo.resolve_method(recv.ty.cls, name)
        return self.call_repo_function(st, fi, [recv] + args, {}, node, recv_cls=recv.ty.cls)

    def _e_BoolOp(self, st, node):
        is_and = isinstance(node.op, ast.And)
        vals_: list[V] = []
        conds = []
        pushed = 0
        try:
            for e in node.values:
                v = self.ev(st, e)
                vals_.append(v)
                c = self.truth(st, v)
                conds.append(c)
                st.guards.append(c if is_and else z3.Not(c))
                pushed += 1
        finally:
            for _ in range(pushed):
                st.guards.pop()
        # value: first falsy (and) / first truthy (or), else the last
        if all(v.kind == 'bool' for v in vals_):
            return v_bool(z3.And(*conds) if is_and else z3.Or(*conds))
        cur = vals_[-1]
        for v, c in zip(reversed(vals_[:-1]), reversed(conds[:-1])):
            pick = z3.Not(c) if is_and else c
            mv = self.merge_vals([v, cur], [pick, z3.BoolVal(True)])
            if mv is None:
                raise Unsupported('BoolOp over unmergeable values')
            cur = mv
        return cur

    def _e_IfExp(self, st, node):
        c = z3.simplify(self.truth(st, self.ev(st, node.test)))
        if z3.is_true(c):
            return self.ev(st, node.body)
        if z3.is_false(c):
            return self.ev(st, node.orelse)
        if self.may_raise_caught(st, node.body) or self.may_raise_caught(st, node.orelse):
            if self.decide(st, c):
                return self.ev(st, node.body)
            return self.ev(st, node.orelse)
        st.guards.append(c)
        try:
            a = self.ev(st, node.body)
        finally:
            st.guards.pop()
        st.guards.append(z3.Not(c))
        try:
            b = self.ev(st, node.orelse)
        finally:
            st.guards.pop()
        mv = self.merge_vals([a, b], [c, z3.BoolVal(True)])
        if mv is None:
            if self.decide(st, c):
                return a
            return b
        return mv

    def may_raise_caught(self, st, node) -> bool:
        """Does the expression contain a division while a ZeroDivisionError handler is active?"""
        if not st.try_stack:
            return False
        for n in ast.walk(node):
            if isinstance(n, ast.BinOp) and isinstance(n.op, (ast.Div, ast.FloorDiv, ast.Mod)):
                if self.catches(st, 'ZeroDivisionError'):
                    return True
            if isinstance(n, ast.Subscript) and (self.catches(st, 'KeyError') or self.catches(st, 'IndexError')):
                return True
            if isinstance(n, ast.Call) and st.try_stack:
                return True
        return False

    def in_slice(self, st, op, item: V, rn):
        """`x in xs[a:b]` / `not in`: membership stated over the positions of the ORIGINAL list (no shifted copy of the
        slice: `exists q. a' <= q < b' and xs[q] == x`), which is what contracts quantify over as well."""
        if not isinstance(op, (ast.In, ast.NotIn)) or not isinstance(rn, ast.Subscript) or not isinstance(rn.slice, ast.Slice):
            return None
        sl = rn.slice
        if sl.step is not None or len(self.frames) == 0 or item is None:
            return None
        base = self.ev(st, rn.value)
        if base.kind != 'list':
            return None
        n = st.list_len(base)

        def bound(e, default):
            if e is None:
                return default
            v = as_int(self.ev(st, e))
            v = z3.If(v < 0, v + n, v)
            return z3.If(v < 0, z3.IntVal(0), z3.If(v > n, n, v))
        lo, hi = bound(sl.lower, z3.IntVal(0)), bound(sl.upper, n)
        q = z3.Int(fresh_name('q'))
        c = z3.Exists([q], z3.And(q >= z3.simplify(lo), q < z3.simplify(hi), z3.Select(st.list_elems(base), q) == self.box(st, item)))
        return v_bool(c if isinstance(op, ast.In) else z3.Not(c))

    def _e_Compare(self, st, node):
        left = self.ev(st, node.left)
        res = []
        for op, rn in zip(node.ops, node.comparators):
            direct = self.in_slice(st, op, left, rn) if len(node.ops) == 1 else None
            if direct is not None:
                res.append(direct)
                left = None
                continue
            right = self.ev(st, rn)
            res.append(self.compare(st, op, left, right, node))
            left = right
        if len(res) == 1:
            return res[0]
        if all(r.kind == 'bool' for r in res):
            return v_bool(z3.And(*[as_bool_raw(r) for r in res]))
        raise Unsupported('chained comparison of non-boolean results')

    def py_vs_symbolic(self, st, l: V, r: V):
        """`x == OBJ` / `x is OBJ` where OBJ is a python-level object (enum member, function, class) and x a symbolic
        value: equality with the opaque constant of the object (a symbolic value of unknown kind MAY be that object;
        answering False would silently kill the guarded branch)."""
        pv, other = (l, r) if l.kind == 'py' else (r, l)
        ok = other.kind
        if ok in ('any', 'ref', 'opt'):
            return other.t == self.box(st, pv)
        if pv.py and pv.py[0] == 'enum':
            ci = self.repo.find_class(pv.py[1])
            bases = [b.split('.')[-1] for b in (ci.bases if ci is not None else [])]
            if any(b in ('IntEnum', 'StrEnum', 'IntFlag') for b in bases) or ci is None:
                raise Unsupported(f'comparison of a {ok} with a member of the value-comparable enum {pv.py[1]}')
        # a plain object never equals a number / string / container / None
        return z3.BoolVal(False)

    def compare(self, st, op, l: V, r: V, node) -> V:
        lk, rk = l.kind, r.kind
        opn = type(op).__name__
        if opn in ('Is', 'IsNot'):
            if rk == 'none':
                c = is_none(l)
            elif lk == 'none':
                c = is_none(r)
            elif lk == 'py' and rk == 'py':
                c = z3.BoolVal(l.py == r.py)
            elif lk == 'py' or rk == 'py':
                c = self.py_vs_symbolic(st, l, r)
            else:
                c = l.t == r.t
            return v_bool(c if opn == 'Is' else z3.Not(c))
        if opn in ('In', 'NotIn'):
            c = self.lib.contains(self, st, r, l, node)
            return v_bool(c if opn == 'In' else z3.Not(c))
        if l.lit is not None and r.lit is not None and lk in ('int', 'real', 'str', 'bool') and rk == lk:
            import operator as _o
            f = {'Eq': _o.eq, 'NotEq': _o.ne, 'Lt': _o.lt, 'LtE': _o.le, 'Gt': _o.gt, 'GtE': _o.ge}[opn]
            return v_bool(bool(f(l.lit, r.lit)))
        if lk in self.NUM and rk in self.NUM:
            if lk in ('int', 'bool') and rk in ('int', 'bool'):
                a, b = as_int(l), as_int(r)
            else:
                a, b = as_real(l), as_real(r)
            c = {'Eq': a == b, 'NotEq': a != b, 'Lt': a < b, 'LtE': a <= b, 'Gt': a > b, 'GtE': a >= b}[opn]
            return v_bool(c)
        if lk == 'str' and rk == 'str':
            a, b = as_atom(l), as_atom(r)
            c = {'Eq': a == b, 'NotEq': a != b, 'Lt': a < b, 'LtE': a <= b, 'Gt': a > b, 'GtE': a >= b}[opn]
            return v_bool(c)
        dn = {'Eq': '__eq__', 'NotEq': '__ne__', 'Lt': '__lt__', 'LtE': '__le__', 'Gt': '__gt__', 'GtE': '__ge__'}[opn]
        rdn = {'Eq': '__eq__', 'NotEq': '__ne__', 'Lt': '__gt__', 'LtE': '__ge__', 'Gt': '__lt__', 'GtE': '__le__'}[opn]
        if lk == 'ref' and l.ty.cls and self.repo.resolve_method(l.ty.cls, dn):
            return self.dunder(st, l, dn, [r], node)
        if rk == 'ref' and r.ty.cls and self.repo.resolve_method(r.ty.cls, rdn):
            return self.dunder(st, r, rdn, [l], node)
        if lk == 'py' or rk == 'py':
            if opn in ('Eq', 'NotEq'):
                if lk == rk:
                    same = z3.BoolVal(l.py == r.py)
                else:
                    same = self.py_vs_symbolic(st, l, r)
                return v_bool(same if opn == 'Eq' else z3.Not(same))
            raise Unsupported('ordering of python objects')
        if lk in ('mat', 'vec') or rk in ('mat', 'vec'):
            nm = {'Eq': 'eq', 'NotEq': 'ne', 'Lt': 'lt', 'LtE': 'le', 'Gt': 'gt', 'GtE': 'ge'}[opn]
            return V(uf(f'op_{nm}', Val, Val, Val)(l.t, r.t), l.ty if lk in ('mat', 'vec') else r.ty)
        if opn in ('Eq', 'NotEq'):
            c = self.py_eq(st, l, r)
            return v_bool(c if opn == 'Eq' else z3.Not(c))
        if lk == 'opt' or rk == 'opt' or lk == 'any' or rk == 'any':
            # ordering on possibly-numeric values: numeric if both are numbers
            lt = l.ty.args[0] if lk == 'opt' else l.ty
            rt = r.ty.args[0] if rk == 'opt' else r.ty
            if lt.kind in self.NUM + ('any',) and rt.kind in self.NUM + ('any',):
                if lk == 'opt':
                    self.oblige(st, 'safe:none', 'cmp', z3.Not(Val.is_none(l.t)), node)
                if rk == 'opt':
                    self.oblige(st, 'safe:none', 'cmp', z3.Not(Val.is_none(r.t)), node)
                if lt.kind == 'any' or rt.kind == 'any':
                    nm = {'Lt': 'lt', 'LtE': 'le', 'Gt': 'gt', 'GtE': 'ge'}[opn]
                    return v_bool(uf(f'any_{nm}', Val, Val, VV.B)(l.t, r.t))
                a, b = Val.nv(l.t), Val.nv(r.t)
                c = {'Lt': a < b, 'LtE': a <= b, 'Gt': a > b, 'GtE': a >= b}[opn]
                return v_bool(c)
        if lk == 'tuple' and rk == 'tuple' and l.items is not None and r.items is not None and len(l.items) == len(r.items):
            # lexicographic
            if opn in ('Lt', 'LtE', 'Gt', 'GtE'):
                strict = ast.Lt() if opn in ('Lt', 'LtE') else ast.Gt()
                res = z3.BoolVal(opn in ('LtE', 'GtE'))
                for a_, b_ in reversed(list(zip(l.items, r.items))):
                    s_ = as_bool_raw(self.compare(st, strict, a_, b_, node))
                    e_ = self.py_eq(st, a_, b_)
                    res = z3.Or(s_, z3.And(e_, res))
                return v_bool(res)
        raise Unsupported(f'comparison {opn} on kinds ({lk},{rk})')

    def py_eq(self, st, l: V, r: V):
        lk, rk = l.kind, r.kind
        if lk in self.NUM and rk in self.NUM:
            return as_real(l) == as_real(r)
        if lk == 'none' or rk == 'none':
            return is_none(l) if rk == 'none' else is_none(r)
        return self.box(st, l) == self.box(st, r)

    # -- containers ------------------------------------------------------------
    def _e_Tuple(self, st, node):
        items = []
        for e in node.elts:
            if isinstance(e, ast.Starred):
                sv = self.ev(st, e.value)
                if sv.items is None:
                    raise Unsupported('starred element of unknown arity')
                items.extend(sv.items)
            else:
                items.append(self.ev(st, e))
        return v_tuple(items)

    def _e_List(self, st, node):
        items = []
        for e in node.elts:
            if isinstance(e, ast.Starred):
                sv = self.ev(st, e.value)
                if sv.items is None:
                    raise Unsupported('starred element of unknown arity')
                items.extend(sv.items)
            else:
                items.append(self.ev(st, e))
        if st.spec:
            return self.lib.spec_list(self, st, items)
        return st.new_list(items)

    def _e_Dict(self, st, node):
        if st.spec:
            raise Unsupported('dict display in a specification')
        d = st.new_dict()
        kts, vts = set(), set()
        for k, v in zip(node.keys, node.values):
            if k is None:
                src = self.ev(st, v)
                self.lib.dict_update(self, st, d, src)
                continue
            kv, vv = self.ev(st, k), self.ev(st, v)
            kts.add(kv.ty)
            vts.add(vv.ty)
            st.dict_set(d, kv, V(self.box(st, vv), vv.ty))
        d = d.with_ty(TDict(kts.pop() if len(kts) == 1 else ANY, vts.pop() if len(vts) == 1 else ANY))
        return d

    def _e_Set(self, st, node):
        items = [self.ev(st, e) for e in node.elts]
        dom = z3.K(Val, z3.BoolVal(False))
        for it in items:
            dom = z3.Store(dom, it.t, z3.BoolVal(True))
        tys = {i.ty for i in items}
        return st.new_set(tys.pop() if len(tys) == 1 else ANY, dom)

    def _e_Subscript(self, st, node):
        obj = self.ev(st, node.value)
        return self.lib.subscript(self, st, obj, node.slice, node)

    def _e_Slice(self, st, node):
        lo = self.ev(st, node.lower) if node.lower is not None else None
        hi = self.ev(st, node.upper) if node.upper is not None else None
        step = self.ev(st, node.step) if node.step is not None else None
        return v_py(('slice', lo, hi, step))

    def _e_JoinedStr(self, st, node):
        return self.lib.fstring(self, st, node)

    def _e_FormattedValue(self, st, node):
        return self.lib.fstring(self, st, ast.JoinedStr(values=[node]))

    def _e_ListComp(self, st, node):
        return self.lib.comprehension(self, st, node, 'list')

    def _e_SetComp(self, st, node):
        return self.lib.comprehension(self, st, node, 'set')

    def _e_DictComp(self, st, node):
        return self.lib.comprehension(self, st, node, 'dict')

    def _e_GeneratorExp(self, st, node):
        # a generator is an immutable temporary: no heap allocation
        st.spec += 1
        try:
            return self.lib.comprehension(self, st, node, 'list')
        finally:
            st.spec -= 1

    def _e_Lambda(self, st, node):
        env = dict(st.locals)
        if st.use_old:
            env.update(st.locals0)      # inside old(...) / raises conditions captured names denote their entry values
        return v_py(('lambda', node, env, self.frame.module))

    def _e_Starred(self, st, node):
        raise Unsupported('starred expression')

    def _e_NamedExpr(self, st, node):
        v = self.ev(st, node.value)
        st.locals[node.target.id] = v
        return v

    # -- calls -----------------------------------------------------------------
    def _e_Call(self, st, node):
        if self.is_dropped_call(node):
            return v_none()
        if st.spec and isinstance(node.func, ast.Name) and node.func.id == 'old' and 'old' not in st.locals:
            st.use_old += 1
            try:
                return self.ev(st, node.args[0])
            finally:
                st.use_old -= 1
        fv = self.ev(st, node.func)
        args: list[V] = []
        for a in node.args:
            if isinstance(a, ast.Starred):
                sv = self.ev(st, a.value)
                if sv.items is None:
                    raise Unsupported('*args of unknown arity')
                args.extend(sv.items)
            else:
                args.append(self.ev(st, a))
        kwargs: dict[str, V] = {}
        for kw in node.keywords:
            if kw.arg is None:
                if fv.kind == 'py' and fv.py == ('builtin', 'dict') and len(args) == 1 and len(node.keywords) == 1:
                    # dict(a, **b): right-biased merge
                    return self.lib.dict_merge(self, st, args[0], self.ev(st, kw.value))
                raise Unsupported('**kwargs call')
            kwargs[kw.arg] = self.ev(st, kw.value)
        return self.call(st, fv, args, kwargs, node)

    def call(self, st, fv: V, args: list[V], kwargs: dict[str, V], node) -> V:
        VV.CUR[0] = st
        if fv.kind != 'py':
            if fv.kind == 'ref' and fv.ty.cls and self.repo.resolve_method(fv.ty.cls, '__call__'):
                return self.dunder(st, fv, '__call__', args, node)
            if fv.kind in ('any', 'opt'):
                # a callable stored in a variable / field: deterministic function of its arguments
                self.ctx.note('A-CALLABLE: stored callables are modelled as pure uninterpreted functions of their arguments')
                kws = sorted(kwargs)
                f = uf(f'apply!{len(args)}!' + ','.join(kws), *([Val] * (1 + len(args) + len(kws))), Val)
                res_t = f(fv.t, *[self.box(st, a) for a in args], *[self.box(st, kwargs[k]) for k in kws])
                self.returned_object(st, res_t)
                return V(res_t, ANY)
            raise Unsupported(f'call of a non-callable value ({fv.kind}) at line {getattr(node, "lineno", 0)}')
        p = fv.py
        tag = p[0]
        if tag == 'builtin':
            return self.lib.BUILTINS[p[1]](self, st, args, kwargs, node)
        if tag == 'specfn':
            return self.lib.SPEC_BUILTINS[p[1]](self, st, args, kwargs, node)
        if tag == 'spec':
            return self.ctx.specs[p[1]](self, st, *args, **kwargs)
        if tag == 'lib':
            return self.lib.call_lib(self, st, p[1], args, kwargs, node)
        if tag == 'func':
            return self.call_repo_function(st, p[1], args, kwargs, node)
        if tag == 'class':
            return self.construct(st, p[1], args, kwargs, node)
        if tag == 'exc':
            return v_py(('excinst', p[1], args[0] if args else None))
        if tag == 'bound':
            recv: V = p[1]
            name = p[2]
            if recv.kind == 'ref':
                h = self.lib.ref_method(self, st, recv, name, args, kwargs, node)
                if h is not None:
                    return h
                return self.call_method(st, recv, name, args, kwargs, node)
            return self.lib.value_method(self, st, recv, name, args, kwargs, node)
        if tag in ('lambda', 'closure'):
            return self.call_closure(st, p, args, kwargs, node)
        h = self.lib.call_pyobj(self, st, fv, args, kwargs, node)
        if h is not None:
            return h
        raise Unsupported(f'call of {p[:2]} at line {getattr(node, "lineno", 0)}')

    def returned_object(self, st: State, res_t):
        """An object returned by an opaque callee exists now: objects allocated later by this
        function are distinct from it (the allocation pointer moves past it)."""
        if st.spec:
            return
        r = Val.rv(res_t)
        st.alloc = z3.If(z3.And(Val.is_ref(res_t), r >= st.alloc), r + 1, st.alloc)
        st.assume(z3.Implies(Val.is_ref(res_t), r >= 0))

    def call_closure(self, st, p, args, kwargs, node):
        fn = p[1]
        saved, saved0 = st.locals, st.locals0
        st.locals = dict(p[2])
        if st.use_old:
            st.locals0 = st.locals
        fr = Frame(p[3], None, depth=self.frame.depth + 1)
        self.frames.append(fr)
        try:
            self.bind_params(st, fn.args, args, kwargs, None)
            if isinstance(fn, ast.Lambda):
                return self.ev(st, fn.body)
            return self.run_inlined(st, fn.body, fn.name)
        finally:
            self.frames.pop()
            st.locals = saved
            st.locals0 = saved0

    def bind_params(self, st, a: ast.arguments, args: list[V], kwargs: dict[str, V], fi, skip_self=False):
        params = [x.arg for x in a.posonlyargs + a.args]
        defaults = [None] * (len(params) - len(a.defaults)) + list(a.defaults)
        anns = {x.arg: x.annotation for x in a.posonlyargs + a.args + a.kwonlyargs}
        bound = {}
        if len(args) > len(params):
            if a.vararg is None:
                raise Unsupported('too many positional arguments')
            bound[a.vararg.arg] = v_tuple(args[len(params):])
            args = args[:len(params)]
        elif a.vararg is not None:
            bound[a.vararg.arg] = v_tuple([])
        for nme, v in zip(params, args):
            bound[nme] = v
        extra_kw = {}
        for k, v in kwargs.items():
            if k in params or k in [x.arg for x in a.kwonlyargs]:
                bound[k] = v
            else:
                extra_kw[k] = v
        if extra_kw:
            if a.kwarg is None:
                raise Raised('TypeError')
            raise Unsupported('**kwargs parameter')
        for nme, d in zip(params, defaults):
            if nme not in bound:
                if d is None:
                    raise Raised('TypeError')
                bound[nme] = self.ev(st, d)
        for x, d in zip(a.kwonlyargs, a.kw_defaults):
            if x.arg not in bound:
                if d is None:
                    raise Raised('TypeError')
                bound[x.arg] = self.ev(st, d)
        for nme, v in bound.items():
            ann = anns.get(nme)
            if ann is not None and v.kind == 'any':
                ty = self.ptype(ann)
                if ty.kind != 'any':
                    v = v.with_ty(ty)
            st.locals[nme] = v
        return bound

    # -- repo functions: contract or inline -------------------------------------
    def call_method(self, st, recv: V, name: str, args, kwargs, node) -> V:
        cls = recv.ty.cls
        if cls is None:
            raise Unsupported(f'method {name} on an object of unknown class (line {getattr(node, "lineno", 0)})')
        con = self.ctx.registry.lookup_method(self.repo, cls, name)
        if con is not None:
            # modular OO reasoning: the contract found for the static class also governs overriders in subclasses.
            # An overrider without a contract of its own is an assumption (behavioural subtyping), listed in the evidence.
            if cls not in self.ctx.registry.exact_classes:
                keys = self.ctx.registry.contracts
                base = self.repo.resolve_method(cls, name)
                for c in self.repo.subclasses(cls):
                    if c.name != cls and name in c.methods and c.methods[name] is not base:
                        q = f'{c.module}.{c.name}.{name}'
                        if q not in keys and not any(k.startswith(q + '@') for k in keys):
                            self.ctx.note(f'ASSUMED behavioural subtyping: {c.name}.{name} (no contract of its own) satisfies the '
                                          f'contract {con.qualname} applied to a receiver of static class {cls}')
            return self.apply_contract(st, con, [recv] + args, kwargs, node)
        fi = self.repo.resolve_method(cls, name)
        if fi is None:
            # attribute holding a callable?
            raise Unsupported(f'no method {cls}.{name}')
        # virtual call: inlining is only sound when no subclass overrides the method
        overriders = [c.name for c in self.repo.subclasses(cls)
                      if c.name != cls and name in c.methods and c.methods[name] is not fi]
        if overriders:
            exact = self.ctx.registry.exact_classes
            if cls not in exact:
                raise Unsupported(f'virtual call {cls}.{name} overridden in {overriders[:4]}: needs an abstract contract')
        return self.call_repo_function(st, fi, [recv] + args, kwargs, node, recv_cls=cls)

    def call_repo_function(self, st, fi: FuncInfo, args, kwargs, node, recv_cls=None) -> V:
        # @deprecated(new) def old(): pass  -> forwards to new (verified separately in C20)
        con = self.ctx.registry.get(fi.qualname)
        if con is not None and not (self.frame.func is not None and self.frame.func.qualname == fi.qualname and self.frame.depth == 0 and False):
            return self.apply_contract(st, con, args, kwargs, node)
        if 'staticmethod' in fi.decorators and recv_cls is not None and args and args[0].kind == 'ref':
            args = args[1:]
        if any(d.endswith('deprecated') for d in fi.decorators):
            tgt = self.deprecated_target(fi)
            if tgt is not None:
                return self.call_repo_function(st, tgt, args, kwargs, node, recv_cls=recv_cls)
        if self.frame.depth >= MAX_INLINE_DEPTH:
            raise Unsupported(f'inline depth exceeded at {fi.qualname}')
        if any(f.func is not None and f.func.qualname == fi.qualname for f in self.frames):
            raise Unsupported(f'recursive call of {fi.qualname} without a contract')
        self.ctx.note(f'inlined {fi.qualname}')
        saved, saved0 = st.locals, st.locals0
        st.locals = {}
        if st.use_old:
            # inside old(...) / a `raises` condition names are looked up in locals0: the callee's own names must be found
            # there (not the entry values of same-named parameters of the function under contract)
            st.locals0 = st.locals
        fr = Frame(self.repo.modules[fi.module], fi, depth=self.frame.depth + 1)
        self.frames.append(fr)
        try:
            self.bind_params(st, fi.node.args, args, kwargs, fi)
            return self.run_inlined(st, fi.node.body, fi.qualname)
        finally:
            self.frames.pop()
            st.locals = saved
            st.locals0 = saved0

    def deprecated_target(self, fi: FuncInfo) -> FuncInfo | None:
        for d in fi.node.decorator_list:
            if isinstance(d, ast.Call) and ast.unparse(d.func).endswith('deprecated'):
                arg = d.args[0] if d.args else next((k.value for k in d.keywords if k.arg == 'new_func'), None)
                if isinstance(arg, ast.Name):
                    mi = self.repo.modules[fi.module]
                    if fi.cls and arg.id in mi.classes[fi.cls].methods:
                        return mi.classes[fi.cls].methods[arg.id]
                    if arg.id in mi.functions:
                        return mi.functions[arg.id]
        return None

    def run_inlined(self, st: State, body, label) -> V:
        """Execute a callee body in place.  The callee's outcomes are folded back into
        the caller's state; several unmergeable outcomes fork the calling statement."""
        saved_dec = (st.decisions, st.dpos)
        saved_try = st.try_stack
        sub = st.copy()
        sub.try_stack = list(st.try_stack)
        outs = self.exec_block(sub, body)
        rets = []
        for o in outs:
            if o.kind == 'normal':
                o = Outcome('return', o.st, val=v_none())
            if o.kind not in ('return', 'raise'):
                raise Unsupported('break/continue escaping a function')
            rets.append(o)
        # try to merge the returning outcomes
        returning = [o for o in rets if o.kind == 'return']
        raising = [o for o in rets if o.kind == 'raise']
        merged: list[Outcome] = []
        if len(returning) > 1:
            for o in returning:
                o.st.locals = {'$ret': o.val}
            ms = self.merge_states([o.st for o in returning])
            if len(ms) == 1:
                merged = [Outcome('return', ms[0], val=ms[0].locals['$ret'])]
            else:
                merged = returning
        else:
            merged = returning
        alts = merged + raising
        if not alts:
            raise Unsupported(f'no outcome from {label}')
        st.decisions, st.dpos = saved_dec
        i = self.choose(st, len(alts))
        o = alts[i]
        dec = (st.decisions, st.dpos)
        # adopt the outcome's state
        st.heap = o.st.heap
        st.pc = o.st.pc
        st.alloc = o.st.alloc
        st.ghost = o.st.ghost
        st.snap = o.st.snap
        st.fresh = o.st.fresh
        st.nonneg = o.st.nonneg
        VV.CUR[0] = st
        st.decisions, st.dpos = dec
        st.try_stack = saved_try
        if o.kind == 'raise':
            raise Raised(o.exc, o.msg)
        return o.val

    # -- object construction ------------------------------------------------
    def construct(self, st, ci: ClassInfo, args, kwargs, node) -> V:
        h = self.lib.construct_special(self, st, ci, args, kwargs, node)
        if h is not None:
            return h
        con = self.ctx.registry.get(f'{ci.module}.{ci.name}.__init__') or \
            self.ctx.registry.lookup_method(self.repo, ci.name, '__init__')
        key = self.repo.class_key(ci)
        r = st.new_ref(ci.name)
        obj = v_ref(r, key)
        st.assume(self.cls_of(r) == self.class_id(key))
        init = self.repo.resolve_method(ci.name, '__init__', ci.module)
        if con is not None:
            self.apply_contract(st, con, [obj] + args, kwargs, node)
            return obj
        if init is None:
            # NamedTuple / dataclass style: fields from annotations
            # dataclass / NamedTuple fields, base classes first
            names, defaults = [], {}
            for c in reversed(self.repo.mro(ci)):
                for nme in c.field_types:
                    if nme not in names:
                        names.append(nme)
                    if nme in c.class_attrs:
                        defaults[nme] = (c, c.class_attrs[nme])
            if names and (any('NamedTuple' in b for b in ci.bases) or 'dataclass' in ''.join(ast.unparse(d) for d in ci.node.decorator_list)):
                vals_ = dict(zip(names, args))
                vals_.update(kwargs)
                for nme in names:
                    if nme in vals_:
                        st.write(r, nme, self.box(st, vals_[nme]))
                    elif nme in defaults:
                        st.write(r, nme, self.box(st, self.ev(st, defaults[nme][1])))
                    else:
                        raise Raised('TypeError')
                if any('NamedTuple' in b for b in ci.bases):
                    obj.items = [vals_[n] for n in names if n in vals_]
                return obj
            return obj
        self.call_repo_function(st, init, [obj] + args, kwargs, node, recv_cls=ci.name)
        return obj

    def class_id(self, name: str):
        ci = self.repo.find_class(name)
        if ci is not None:
            name = self.repo.class_key(ci)
        return VV.ATOMS.atom('class:' + name)

    def cls_of(self, r):
        return uf('cls_of', I, I)(r)

    # ==================================================================
    # Contracts at call sites / specification expressions
    # ==================================================================
    def spec_eval(self, st: State, src, env: dict[str, V]) -> V:
        node = src if isinstance(src, ast.AST) else ast.parse(src, mode='eval').body
        saved = st.locals
        st.locals = dict(saved)
        st.locals.update(env)
        st.spec += 1
        try:
            return self.ev(st, node)
        finally:
            st.spec -= 1
            st.locals = saved

    def spec_goal(self, st: State, kind: str, label: str, src, env: dict[str, V], line=0, note='', witness=None):
        """Obligation whose goal is a specification expression: evaluated on a copy of the
        state so that facts assumed while evaluating the goal do not leak into the path."""
        s2 = st.copy()
        g = self.spec_bool(s2, src, env)
        self.ctx.add_oblig(s2, kind, label, g, line=line, note=note, witness=witness)
        return g

    def spec_bool(self, st: State, src, env: dict[str, V]):
        v = self.spec_eval(st, src, env)
        return self.truth(st, v)

    def apply_contract(self, st: State, con, args: list[V], kwargs, node) -> V:
        fi = self.repo.function(con.qualname)
        if fi is None:
            raise Unsupported(f'contract for unknown function {con.qualname}')
        caller_locals = st.locals
        st.locals = {}
        fr = Frame(self.repo.modules[fi.module], fi, depth=self.frame.depth + 1)
        self.frames.append(fr)
        try:
            bound = self.bind_params(st, fi.node.args, args, kwargs, fi)
            env = dict(st.locals)
            for _v in env.values():
                if _v.kind == 'dict' and not st.spec:
                    st.assume_wf_dict(_v)
            for nme, tsrc in con.types.items():
                if nme in env:
                    env[nme] = env[nme].with_ty(self.ptype(tsrc)) if env[nme].kind in ('any', 'opt') else env[nme]
            # preconditions
            st.locals = env
            for label, src in con.requires.items():
                if not st.spec:
                    g = self.spec_goal(st, 'pre@callsite', f'{fi.name}:{label}', src, {},
                                       line=getattr(node, 'lineno', 0))
                    st.assume(g)
            # raises: a contract may say under which condition the callee raises
            for exc, csrc in con.raises.items():
                c = self.spec_bool(st, csrc, {})
                if self.decide(st, c):
                    raise Raised(exc)
            # snapshot for old()
            pre_heap = dict(st.heap)
            pre_locals = dict(env)
            # havoc
            if not st.spec:
                for loc in con.modifies:
                    self.havoc_location(st, loc)
            # result
            rty = self.ptype(con.returns) if con.returns else self.ptype(fi.node.returns)
            if con.pure and not con.modifies:
                reads = [pre_heap.get(f) if f in pre_heap else st.field(f) for f in con.reads]
                argts = [self.box(st, env[p]) for p in [x.arg for x in fi.node.args.args] if p in env]
                sorts = [a.sort() for a in argts] + [h.sort() for h in reads] + [Val]
                if rty.kind == 'list':
                    # a pure function returning a list: an immutable sequence VALUE (length and
                    # contents are functions of the arguments), not a heap object
                    n_t = uf('Flen!' + con.qualname, *sorts[:-1], I)(*argts, *reads)
                    a_t = uf('Farr!' + con.qualname, *sorts[:-1], z3.ArraySort(I, Val))(*argts, *reads)
                    st.assume(n_t >= 0)
                    ety = rty.args[0] if rty.args else ANY
                    if ety.kind != 'any':
                        jj = z3.Int(fresh_name('j'))
                        for fct in type_invariant(V(z3.Select(a_t, jj), ety)):
                            st.pc.append(z3.ForAll([jj], fct))
                    st.locals = caller_locals
                    return v_py(('specseq', n_t, a_t, ety))
                res_t = uf('F!' + con.qualname, *sorts)(*argts, *reads)
            else:
                if st.bound:
                    # one fresh constant would stand for the results of ALL values of the bound variable
                    raise Unsupported(f'call of {con.qualname} (contract not pure) under a quantifier / comprehension binder')
                res_t = fresh_val('ret!' + fi.name)
            res = V(res_t, rty)
            st.assume_type(res)
            # postconditions
            saved0 = (st.heap0, st.locals0)
            st.heap0, st.locals0 = pre_heap, pre_locals
            try:
                env2 = dict(env)
                env2['result'] = res
                st.locals = env2
                for label, src in con.ensures.items():
                    st.assume(self.spec_bool(st, src, {}))
            finally:
                st.heap0, st.locals0 = saved0
                # a field first touched by the callee's postcondition was never written before: it belongs to the entry heap too
                for f_, a_ in pre_heap.items():
                    if f_ not in st.heap0 and z3.is_const(a_) and a_.decl().name() == f'H0!{f_}':
                        st.heap0[f_] = a_
            if rty.kind == 'tuple' and rty.args:
                items, t = [], res.t
                for ety in rty.args:
                    items.append(V(Val.hd(t), ety))
                    t = Val.tl(t)
                res.items = items
            # the objects a (non-pure) callee returns exist at return: what this function allocates later is distinct from them
            if not (con.pure and not con.modifies):
                for rv_ in ([res] + (res.items or [])):
                    if rv_.kind in ('ref', 'list', 'dict', 'set', 'opt', 'any'):
                        self.returned_object(st, rv_.t)
            return res
        finally:
            self.frames.pop()
            st.locals = caller_locals

    def havoc_location(self, st: State, loc: str):
        """`self.f` / `x.f.g` (one location) or `*.f` (field f of every object)."""
        if loc.startswith('*.'):
            f = loc[2:]
            if f in ('$len', '$elems'):
                st.snap = {}
            cur = st.field(f)
            st.heap[f] = z3.Const(fresh_name(f'H!{f}'), cur.sort())
            return
        node = ast.parse(loc, mode='eval').body
        if not isinstance(node, ast.Attribute):
            raise Unsupported(f'modifies clause {loc}')
        obj = self.spec_eval(st, node.value, {})
        f = node.attr
        cur = st.field(f)
        fresh = z3.Const(fresh_name(f'hv!{f}'), cur.sort().range())
        st.heap[f] = z3.Store(cur, as_ref(obj), fresh)
