"""Extraction of the real source: module table, class table, function lookup.

Everything is re-read from REPO_SRC on every run.  Nothing is cached on disk.
"""
from __future__ import annotations

import ast
import hashlib
import os
from dataclasses import dataclass, field

REPO = os.environ.get('VERIF_REPO', '/repo')
REPO_SRC = os.path.join(REPO, 'src')


@dataclass
class FuncInfo:
    qualname: str            # biogeme.results.Beta.set_std_err
    module: str              # biogeme.results
    cls: str | None          # Beta
    name: str
    node: ast.FunctionDef
    file: str
    sha: str
    decorators: list[str]


@dataclass
class ClassInfo:
    name: str
    module: str
    node: ast.ClassDef
    bases: list[str]                      # names as written
    methods: dict[str, FuncInfo] = field(default_factory=dict)
    field_types: dict[str, ast.expr] = field(default_factory=dict)  # from self.x: T = ..
    class_attrs: dict[str, ast.expr] = field(default_factory=dict)


@dataclass
class ModuleInfo:
    name: str
    file: str
    tree: ast.Module
    imports: dict[str, str] = field(default_factory=dict)   # local name -> dotted target
    functions: dict[str, FuncInfo] = field(default_factory=dict)
    classes: dict[str, ClassInfo] = field(default_factory=dict)
    globals_: dict[str, ast.expr] = field(default_factory=dict)


def _sha(node: ast.AST) -> str:
    return hashlib.sha256(ast.dump(node, include_attributes=False).encode()).hexdigest()[:16]


def _deco_names(node) -> list[str]:
    out = []
    for d in node.decorator_list:
        f = d.func if isinstance(d, ast.Call) else d
        try:
            out.append(ast.unparse(f))
        except Exception:  # pragma: no cover
            out.append('?')
    return out


class Repo:
    """All modules under src/biogeme parsed once per process."""

    def __init__(self, src: str = REPO_SRC):
        self.src = src
        self.modules: dict[str, ModuleInfo] = {}
        self.classes: dict[str, list[ClassInfo]] = {}
        self.parse_errors: list[str] = []
        self._load()

    # ------------------------------------------------------------------
    def _load(self):
        root = os.path.join(self.src, 'biogeme')
        for dirpath, _dirs, files in os.walk(root):
            for fn in sorted(files):
                if not fn.endswith('.py'):
                    continue
                path = os.path.join(dirpath, fn)
                rel = os.path.relpath(path, self.src)[:-3].replace(os.sep, '.')
                if rel.endswith('.__init__'):
                    rel = rel[: -len('.__init__')]
                try:
                    with open(path, encoding='utf-8') as f:
                        tree = ast.parse(f.read(), filename=path)
                except SyntaxError as e:
                    self.parse_errors.append(f'{path}: {e}')
                    continue
                self._index_module(rel, path, tree)

    def _resolve_relative(self, modname: str, is_pkg: bool, level: int, target: str | None) -> str:
        parts = modname.split('.')
        if not is_pkg:
            parts = parts[:-1]
        if level > 1:
            parts = parts[: len(parts) - (level - 1)]
        if target:
            parts = parts + target.split('.')
        return '.'.join(parts)

    def _index_module(self, name: str, path: str, tree: ast.Module):
        is_pkg = os.path.basename(path) == '__init__.py'
        mi = ModuleInfo(name=name, file=path, tree=tree)
        for node in ast.walk(tree):
            # imports anywhere (incl. TYPE_CHECKING blocks, function-level imports)
            if isinstance(node, ast.Import):
                for a in node.names:
                    mi.imports[a.asname or a.name.split('.')[0]] = (
                        a.name if a.asname else a.name.split('.')[0]
                    )
            elif isinstance(node, ast.ImportFrom):
                base = node.module
                if node.level:
                    base = self._resolve_relative(name, is_pkg, node.level, node.module)
                for a in node.names:
                    mi.imports[a.asname or a.name] = f'{base}.{a.name}'
        for node in tree.body:
            self._index_stmt(mi, node)
        self.modules[name] = mi

    def _index_stmt(self, mi: ModuleInfo, node):
        if isinstance(node, (ast.FunctionDef,)):
            mi.functions[node.name] = FuncInfo(
                qualname=f'{mi.name}.{node.name}', module=mi.name, cls=None,
                name=node.name, node=node, file=mi.file, sha=_sha(node),
                decorators=_deco_names(node))
        elif isinstance(node, ast.ClassDef):
            ci = ClassInfo(name=node.name, module=mi.name, node=node,
                           bases=[ast.unparse(b) for b in node.bases])
            for sub in node.body:
                if isinstance(sub, ast.FunctionDef):
                    ci.methods[sub.name] = FuncInfo(
                        qualname=f'{mi.name}.{node.name}.{sub.name}', module=mi.name,
                        cls=node.name, name=sub.name, node=sub, file=mi.file,
                        sha=_sha(sub), decorators=_deco_names(sub))
                    for st in ast.walk(sub):
                        if (isinstance(st, ast.AnnAssign)
                                and isinstance(st.target, ast.Attribute)
                                and isinstance(st.target.value, ast.Name)
                                and st.target.value.id == 'self'):
                            ci.field_types.setdefault(st.target.attr, st.annotation)
                elif isinstance(sub, ast.AnnAssign) and isinstance(sub.target, ast.Name):
                    ci.field_types.setdefault(sub.target.id, sub.annotation)
                    if sub.value is not None:
                        ci.class_attrs[sub.target.id] = sub.value
                elif isinstance(sub, ast.Assign):
                    for t in sub.targets:
                        if isinstance(t, ast.Name):
                            ci.class_attrs[t.id] = sub.value
            mi.classes[node.name] = ci
            self.classes.setdefault(node.name, []).append(ci)
        elif isinstance(node, ast.Assign):
            for t in node.targets:
                if isinstance(t, ast.Name):
                    mi.globals_[t.id] = node.value
        elif isinstance(node, ast.AnnAssign) and isinstance(node.target, ast.Name):
            if node.value is not None:
                mi.globals_[node.target.id] = node.value
        elif isinstance(node, (ast.If, ast.Try)):
            for sub in node.body:
                self._index_stmt(mi, sub)

    # ------------------------------------------------------------------
    def class_key(self, ci: ClassInfo) -> str:
        """Unique key of a class: its simple name, or module.Name when the name is ambiguous."""
        if len(self.classes.get(ci.name, [])) > 1:
            return f'{ci.module}.{ci.name}'
        return ci.name

    def find_class(self, name: str, module: str | None = None) -> ClassInfo | None:
        """Class by key or simple name (prefer the given module, then its imports)."""
        if name is None:
            return None
        if '.' in name:
            mod, _, base = name.rpartition('.')
            for c in self.classes.get(base, []):
                if c.module == mod:
                    return c
        name = name.split('.')[-1]
        cands = self.classes.get(name, [])
        if not cands:
            return None
        if len(cands) == 1:
            return cands[0]
        if module:
            for c in cands:
                if c.module == module:
                    return c
            mi = self.modules.get(module)
            if mi and name in mi.imports:
                tgt = mi.imports[name]
                for c in cands:
                    if tgt.startswith(c.module):
                        return c
        # prefer non-"models_orig"/non-archive definitions
        cands = sorted(cands, key=lambda c: ('orig' in c.module, c.module))
        return cands[0]

    def mro(self, ci: ClassInfo) -> list[ClassInfo]:
        out, seen = [], set()

        def rec(c: ClassInfo):
            if id(c) in seen:
                return
            seen.add(id(c))
            out.append(c)
            for b in c.bases:
                bc = self.find_class(b, c.module)
                if bc is not None:
                    rec(bc)
        rec(ci)
        return out

    def is_subclass(self, sub: str, sup: str) -> bool:
        c = self.find_class(sub)
        s = self.find_class(sup)
        if c is None or s is None:
            return sub == sup
        return any(x is s for x in self.mro(c))

    def subclasses(self, sup: str) -> list[ClassInfo]:
        out = []
        s = self.find_class(sup)
        for lst in self.classes.values():
            for c in lst:
                if any(x is s for x in self.mro(c)):
                    out.append(c)
        return out

    def resolve_method(self, cls: str, meth: str, module: str | None = None) -> FuncInfo | None:
        ci = self.find_class(cls, module)
        if ci is None:
            return None
        for c in self.mro(ci):
            if meth in c.methods:
                return c.methods[meth]
        return None

    def field_type(self, cls: str, fld: str) -> ast.expr | None:
        ci = self.find_class(cls)
        if ci is None:
            return None
        for c in self.mro(ci):
            if fld in c.field_types:
                return c.field_types[fld]
        return None

    def function(self, qualname: str) -> FuncInfo | None:
        """biogeme.results.Beta.set_std_err  or  biogeme.results.calc_p_value"""
        parts = qualname.split('.')
        for cut in range(len(parts) - 1, 0, -1):
            mod = '.'.join(parts[:cut])
            if mod in self.modules:
                rest = parts[cut:]
                mi = self.modules[mod]
                if len(rest) == 1:
                    return mi.functions.get(rest[0])
                if len(rest) == 2 and rest[0] in mi.classes:
                    return mi.classes[rest[0]].methods.get(rest[1])
                if len(rest) >= 2:
                    # nested function: module.func.inner  or module.Class.meth.inner
                    outer = self.function('.'.join(parts[:-1]))
                    if outer is not None:
                        for st in ast.walk(outer.node):
                            if isinstance(st, ast.FunctionDef) and st.name == rest[-1] and st is not outer.node:
                                return FuncInfo(qualname=qualname, module=mod, cls=outer.cls,
                                                name=st.name, node=st, file=outer.file,
                                                sha=_sha(st), decorators=_deco_names(st))
                return None
        return None


_REPO: Repo | None = None


def get_repo() -> Repo:
    global _REPO
    if _REPO is None:
        _REPO = Repo()
    return _REPO
