"""Per-property driver: contracts -> obligations -> verdicts -> evidence / replays / exit code.

Exit codes: 0 held (or known findings only) / 1 violation / 2 undecided / 3 checker crash.
"""
from __future__ import annotations

import importlib
import json
import multiprocessing as mp
import os
import subprocess
import sys
import time
import traceback
from dataclasses import asdict, dataclass, field

VERIF = os.path.dirname(os.path.dirname(os.path.abspath(__file__)))
VENV_PY = '/venv/bin/python'


@dataclass
class Extra:
    """Result of a non-contract obligation (static analysis, lemma, Lean) or bounded check."""
    name: str
    kind: str                 # static | lemma | lean | bounded
    status: str               # discharged | failed | unknown | error
    backend: str
    seconds: float = 0.0
    detail: str = ''
    witness: dict | None = None
    bound: str = ''           # for bounded checks: the stated bound
    cases: int = 0


def load_prop(prop: str):
    return importlib.import_module(f'props.{prop}')


_TASKS: list = []      # (func index, Oblig, witness) -- inherited by forked workers


def _discharge_idx(args):
    i, timeout_ms = args
    from pyvc.verify import discharge
    fidx, ob, witness = _TASKS[i]
    try:
        r = discharge(ob, timeout_ms, witness)
    except Exception as e:     # pragma: no cover
        from pyvc.verify import OblResult
        r = OblResult(ob.name, ob.kind, 'error', 'z3', 0.0, ob.line, ob.func, traceback.format_exc()[-500:])
    return i, asdict(r)


def run_contracts(prop: str, modules: list[str], timeout_ms: int, jobs: int) -> list[dict]:
    """Phase A (this process): generate the obligations of every function under contract from
    the current AST.  Phase B (forked pool): discharge them in parallel."""
    from pyvc.contract import REGISTRY
    from pyvc.repo import get_repo
    from pyvc.verify import verify_function, finalize
    from pyvc import specs_runtime
    for m in modules:
        importlib.import_module('contracts.' + m)
    specs = specs_runtime.load_specs()
    keys = [k for k, c in REGISTRY.contracts.items() if prop in c.props]
    results = []
    deferred: list = []
    for k in keys:
        con = REGISTRY.contracts[k]
        r = verify_function(get_repo(), REGISTRY, con, prop, specs, timeout_ms, defer=deferred)
        results.append((k, con, r))
    _TASKS.clear()
    res_index = {id(r): i for i, (_, _, r) in enumerate(results)}
    for (r, obligs, witness) in deferred:
        for ob in obligs:
            _TASKS.append((res_index[id(r)], ob, witness))
    if _TASKS:
        ctx = mp.get_context('fork')
        with ctx.Pool(min(jobs, len(_TASKS))) as pool:
            done = pool.map(_discharge_idx, [(i, timeout_ms) for i in range(len(_TASKS))], chunksize=1)
        from pyvc.verify import OblResult
        done = dict(done)
        # second chance for `unknown`: the same queries again with three times the budget and few competitors (verdicts of
        # quantified queries depend on seed and machine load; only `unsat` / `sat` change a verdict, nothing is assumed)
        again = [i for i, d in done.items() if d.get('status') == 'unknown']
        if again and len(again) <= 40:
            with ctx.Pool(min(max(2, jobs // 2), len(again))) as pool:
                for i, d in pool.map(_discharge_idx, [(i, timeout_ms * 3) for i in again], chunksize=1):
                    if d.get('status') in ('discharged', 'failed'):
                        d['backend'] = str(d.get('backend', '')) + '(second pass)'
                        done[i] = d
        for i, d in sorted(done.items()):
            fidx = _TASKS[i][0]
            results[fidx][2].obligations.append(OblResult(**d))
    out = []
    for k, con, r in results:
        if r.status == 'verified':
            finalize(r, con)
        d = asdict(r)
        d['key'] = k
        d['replay'] = con.replay
        out.append(d)
    return out


def load_known() -> list[dict]:
    p = os.path.join(VERIF, 'known_findings.json')
    if not os.path.exists(p):
        return []
    with open(p) as f:
        return json.load(f).get('findings', [])


def write_replay(prop: str, name: str, payload: dict) -> str:
    d = os.path.join(VERIF, 'replays', prop)
    os.makedirs(d, exist_ok=True)
    safe = name.replace('/', '_').replace(':', '__').replace('@', '_at_')
    path = os.path.join(d, safe + '.json')
    with open(path, 'w') as f:
        json.dump(payload, f, indent=1, default=str)
    return path


def run_replay(path: str, timeout=300) -> tuple[str, str]:
    """Replays a counter-model on the real code (fresh /venv process).
    Returns (reproduced | not-reproduced | no-replay, output)."""
    env = dict(os.environ)
    env.pop('PYTHONPATH', None)
    repo = os.environ.get('VERIF_REPO')
    if repo and repo != '/repo':
        env['PYTHONPATH'] = os.path.join(repo, 'src')      # scratch copy under test
    try:
        r = subprocess.run([VENV_PY, os.path.join(VERIF, 'tools', 'replay.py'), path],
                           capture_output=True, text=True, timeout=timeout, cwd='/tmp', env=env)
    except subprocess.TimeoutExpired:
        return 'no-replay', 'replay timed out'
    out = (r.stdout + r.stderr)[-4000:]
    if r.returncode == 10:
        return 'reproduced', out
    if r.returncode == 11:
        return 'not-reproduced', out
    return 'no-replay', out


def main(argv=None):
    import argparse
    ap = argparse.ArgumentParser()
    ap.add_argument('prop')
    ap.add_argument('--tier', default=os.environ.get('VERIF_TIER', 'quick'))
    ap.add_argument('--replay')
    ap.add_argument('--update-baseline', action='store_true')
    ap.add_argument('--jobs', type=int, default=int(os.environ.get('VERIF_JOBS', '16')))
    a = ap.parse_args(argv)
    prop, tier = a.prop, a.tier
    if tier not in ('quick', 'thorough'):
        tier = 'quick'
    seed = int(os.environ.get('VERIF_SEED', '0') or 0)
    if a.replay:
        st, out = run_replay(a.replay)
        print(out)
        print(f'replay: {st}')
        return 1 if st == 'reproduced' else 0
    t0 = time.time()
    sys.path.insert(0, VERIF)
    try:
        pm = load_prop(prop)
        timeout_ms = 20000 if tier == 'quick' else 60000
        funcs = run_contracts(prop, pm.CONTRACT_MODULES, timeout_ms, a.jobs)
        extras: list[Extra] = []
        if hasattr(pm, 'extra'):
            extras = pm.extra(tier, seed)
    except Exception:
        traceback.print_exc()
        print(f'CHECKER-CRASH property={prop}')
        write_evidence(prop, tier, seed, 'other', {'explanation': 'checker crashed: ' + traceback.format_exc()[-1500:],
                                                   'evaluations': 1, 'distinct_nontrivial': 2}, [], time.time() - t0, 0)
        return 3
    return finish(prop, tier, seed, pm, funcs, extras, t0, a.update_baseline)


def load_baseline(prop: str) -> dict:
    p = os.path.join(VERIF, 'baseline', f'{prop}.json')
    if not os.path.exists(p):
        return {}
    with open(p) as f:
        return json.load(f)


def record_matches(f, k: dict) -> bool:
    """Does one failure record of a bounded check match one listed finding?
      checks_allowed  - its label (check/clause) is one of these strings;
      checks_contains - its label contains one of these substrings;
      case_contains   - the text of its `case` contains all of these substrings."""
    if not isinstance(f, dict):
        return False
    label = str(f.get('check') or f.get('clause') or '')
    if k.get('checks_allowed') and label not in k['checks_allowed']:
        return False
    if k.get('checks_contains') and not any(sub in label for sub in k['checks_contains']):
        return False
    if k.get('case_contains'):
        txt = json.dumps(f.get('case'), default=str) if not isinstance(f.get('case'), str) else f.get('case')
        if not all(sub in txt for sub in k['case_contains']):
            return False
    return True


def matches_known(o: dict, ks) -> list:
    """Listed findings cover a failed obligation only for the specific failures they describe.  `ks`: the findings listed
    for this obligation (several genuine defects may surface in one bounded check).  Returns the findings that apply, or []
    when some failure is not covered: for bounded checks EVERY reported failure record must match at least one finding."""
    if isinstance(ks, dict):
        ks = [ks]
    plain = [k for k in ks if not any(k.get(x) for x in ('checks_allowed', 'checks_contains', 'case_contains'))]
    fails = ((o.get('model') or {}).get('failures')) or []
    if not fails:
        return plain[:1]
    used = []
    for f in fails:
        hit = next((k for k in ks if record_matches(f, k) or k in plain), None)
        if hit is None:
            return []
        if not any(hit is u for u in used):
            used.append(hit)
    return used


def finish(prop, tier, seed, pm, funcs: list[dict], extras: list[Extra], t0, update_baseline=False) -> int:
    known = [k for k in load_known() if k.get('property') == prop]
    known_open: dict = {}
    for k in known:
        if k.get('status') == 'finding':
            known_open.setdefault(k['obligation'], []).append(k)
    obligations = []
    crash = []
    undecided = []
    for f in funcs:
        if f['status'] == 'error':
            crash.append(f"{f['key']}: {f['error'][-600:]}")
        elif f['status'] in ('out-of-subset', 'missing'):
            undecided.append(f"{f['key']}: {f['status']} {f['error'][:300]}")
        for o in f['obligations']:
            o = dict(o)
            o['function'] = f['qualname']
            o['sha'] = f['sha']
            o['replay_code'] = f.get('replay')
            obligations.append(o)
        if f['status'] == 'undecided' and f.get('error'):
            undecided.append(f"{f['key']}: {f['error'][:300]}")
    proof_extras = [e for e in extras if e.kind != 'bounded']
    bounded = [e for e in extras if e.kind == 'bounded']
    for e in proof_extras:
        obligations.append({'name': e.name, 'kind': e.kind, 'status': e.status, 'backend': e.backend,
                            'seconds': e.seconds, 'note': e.detail, 'model': e.witness, 'function': '', 'sha': '', 'line': 0, 'func': ''})
    violations = []
    known_lines = []
    baseline = load_baseline(prop)
    base_obl = baseline.get('obligations', {})
    if update_baseline:
        os.makedirs(os.path.join(VERIF, 'baseline'), exist_ok=True)
        with open(os.path.join(VERIF, 'baseline', f'{prop}.json'), 'w') as f:
            json.dump({'property': prop, 'obligations': {o['name']: {'status': o['status'], 'sha': o.get('sha', '')}
                                                         for o in obligations}}, f, indent=0, sort_keys=True)
        base_obl = {}
    # vacuity guard: an obligation of the committed baseline that is no longer generated
    # (function renamed / moved / path vanished) makes the run undecided, never green
    if base_obl and tier in ('quick', 'thorough'):
        have = {o['name'] for o in obligations}
        changed_funcs = {o.get('function') for o in obligations
                         if o['name'] in base_obl and base_obl[o['name']].get('sha') != o.get('sha', '')}
        for name, b in base_obl.items():
            if name not in have:
                # renumbered duplicates after an edit of that function are tolerated when the base name survives
                if base_name(name) in {base_name(h) for h in have}:
                    continue
                undecided.append(f'{name}: obligation of the committed baseline was not generated (vacuity guard)')
    for o in obligations:
        if o['status'] == 'failed':
            hit = matches_known(o, known_open[o['name']]) if o['name'] in known_open else []
            if hit:
                known_lines.extend((o, k) for k in hit)
            else:
                violations.append(o)
        elif o['status'] in ('unknown',):
            if o['name'] in known_open:
                known_lines.append((o, known_open[o['name']][0]))
                continue
            b = base_obl.get(o['name']) or base_obl.get(base_name(o['name']))
            o['regressed'] = bool(b and b.get('status') == 'discharged' and b.get('sha') != o.get('sha', ''))
            o['undecided_by_solver'] = True
            violations.append(o)          # decided below: replay / regression rule / undecided
        elif o['status'] == 'error':
            crash.append(f"{o['name']}: {o.get('note', '')}")
    # bounded stand-ins report violations as well (replayed by construction: they ran the real code)
    for e in bounded:
        if e.status == 'failed':
            o = {'name': e.name, 'kind': 'bounded', 'status': 'failed', 'backend': e.backend, 'seconds': e.seconds,
                 'note': e.detail, 'model': e.witness, 'function': '', 'sha': '', 'native': True}
            hit = matches_known(o, known_open[e.name]) if e.name in known_open else []
            if hit:
                known_lines.extend((o, k) for k in hit)
            else:
                violations.append(o)
        elif e.status in ('unknown', 'error'):
            undecided.append(f'{e.name}: {e.detail[:300]}')
    # a listed finding that no longer fails is reported (not an error)
    stale = [k for name, lst in known_open.items() for k in lst if not any(kk is k for _, kk in known_lines)]
    # replays
    vio_lines = []
    for o in violations:
        payload = {'property': prop, 'obligation': o['name'], 'function': o.get('function'),
                   'function_sha': o.get('sha'), 'backend': o.get('backend'), 'model': o.get('model'),
                   'note': o.get('note'), 'line': o.get('line'), 'tier': tier,
                   'solver_output': 'sat' if o['kind'] not in ('static', 'bounded', 'lean') else o.get('note', '')}
        rp = o.get('replay_code') or getattr(pm, 'REPLAYS', {}).get(base_name(o['name'])) or getattr(pm, 'REPLAYS', {}).get('*')
        if rp:
            payload['replay_code'] = rp
        path = write_replay(prop, o['name'], payload)
        if o.get('native'):
            status = 'reproduced'
            out = o.get('note', '')
        elif rp:
            status, out = run_replay(path)
        else:
            status, out = 'no-replay', ''
        payload['replay_status'] = status
        payload['replay_output'] = out
        if o.get('undecided_by_solver'):
            payload['solver_output'] = 'unknown (both solvers, all seeds); ' + str(o.get('note') or '')
            if status != 'reproduced' and not o.get('regressed'):
                # solver could not decide, no failing input on the real code, and the function is
                # unchanged w.r.t. the committed baseline: undecided, never a violation
                undecided.append(f"{o['name']}: solver returned unknown")
                write_replay(prop, o['name'], payload)
                continue
            if status != 'reproduced':
                payload['regression'] = ('obligation was discharged on the committed baseline; the function source changed '
                                         'and no solver can discharge it any more')
        write_replay(prop, o['name'], payload)
        suffix = '' if status == 'reproduced' else ' no-failing-input-found'
        vio_lines.append(f'VIOLATION property={prop} replay={path}{suffix}')
        print(f'  failed obligation: {o["name"]}  [{o.get("backend")}]  {str(o.get("note") or "")[:200]}')
    for o, k in known_lines:
        print(f'KNOWN-FINDING: property={prop} {k["what"]} [{o["name"]}]')
    for k in stale:
        print(f'note: listed finding no longer observed: {k["obligation"]}')
    n_ob = len(obligations)
    n_dis = len([o for o in obligations if o['status'] == 'discharged'])
    n_known = len({o['name'] for o, _ in known_lines})
    secs = {}
    for o in obligations:
        b = (o.get('backend') or '?').split('(')[0]
        secs.setdefault(b, [0, 0.0])
        secs[b][0] += 1
        secs[b][1] += o.get('seconds', 0) or 0
    level = getattr(pm, 'LEVEL', 'proof')
    fully = (n_dis + n_known == n_ob) and not undecided and not crash and not vio_lines and n_ob > 0
    run_level = level if fully else 'other'
    if n_known and run_level == 'proof':
        # obligations listed as known findings are not discharged: proof level requires discharged == obligations
        run_level = 'other'
    slow = sorted(obligations, key=lambda o: -(o.get("seconds") or 0))[:5]
    for o in slow:
        if (o.get("seconds") or 0) > 5:
            print('  slow obligation', o['name'], o['seconds'], o['status'], o['backend'])
    samples = [{'obligation': o['name'], 'status': o['status'], 'backend': o['backend'], 'seconds': o['seconds'],
                'smt2_bytes': o.get('smt_size', 0)} for o in obligations[:6]]
    samples += [{'obligation': o['name'], 'status': o['status'], 'backend': o['backend'], 'model': o.get('model')}
                for o in obligations if o['status'] == 'failed'][:6]
    cov = {
        'obligations': n_ob, 'discharged': n_dis,
        'checker_cmd': f'./check {prop} --tier {tier}',
        'trusted_base': list(getattr(pm, 'TRUSTED', [])),
        'explanation': getattr(pm, 'EXPLANATION', '') + (
            f' This run: {n_dis}/{n_ob} obligations discharged, {n_known} known findings, '
            f'{len(vio_lines)} violations, {len(undecided)} undecided.'),
        'backends': {b: {'obligations': c, 'seconds': round(s, 3)} for b, (c, s) in secs.items()},
        'functions_under_contract': [
            {'function': f['qualname'], 'label': f['label'], 'file': os.path.relpath(f['file'], '/repo') if f['file'] else '',
             'line': f['line'], 'sha': f['sha'], 'status': f['status'], 'paths': f['paths'],
             'obligations': len(f['obligations']), 'seconds': f['seconds'],
             **({'error': f['error'][:300]} if f['error'] else {})} for f in funcs],
        'samples': samples,
        'bounded_checks': [{'name': e.name, 'bound': e.bound, 'cases': e.cases, 'status': e.status,
                            'backend': e.backend, 'seconds': e.seconds} for e in bounded],
        'known_findings': [{'obligation': o['name'], 'what': k['what']} for o, k in known_lines],
        'undecided': undecided[:20],
        'evaluations': max(1, n_ob + sum(e.cases for e in bounded)),
        'distinct_nontrivial': max(2, len({o['name'] for o in obligations if o['kind'] != 'vacuity'})),
        'rule': 'one case per named proof obligation generated from the current AST of /repo; distinct = distinct obligation name; vacuity checks excluded',
    }
    notes = set()
    for f in funcs:
        notes.update(f.get('notes', []))
    assumptions = sorted(notes) + list(getattr(pm, 'ASSUMPTIONS', []))
    write_evidence(prop, tier, seed, run_level, cov, assumptions, time.time() - t0, len(vio_lines))
    print(f'{prop} [{tier}]: {n_dis}/{n_ob} obligations discharged; known findings {n_known}; '
          f'violations {len(vio_lines)}; undecided {len(undecided)}; crashes {len(crash)}; '
          f'bounded checks {len(bounded)}; {time.time() - t0:.1f}s')
    if crash:
        for c in crash:
            print('CHECKER-CRASH', c)
        return 3
    if vio_lines:
        for l in vio_lines:
            print(l)
        return 1
    if undecided:
        for u in undecided:
            print('UNDECIDED', u)
        return 2
    return 0


def base_name(name: str) -> str:
    return name.split('#')[0]


def write_evidence(prop, tier, seed, level, cov, assumptions, wall, violations):
    os.makedirs(os.path.join(VERIF, 'evidence'), exist_ok=True)
    ev = {'property_id': prop, 'tier': tier, 'seed': seed, 'level': level, 'coverage': cov,
          'assumptions': assumptions, 'wall_s': round(wall, 2), 'violations': violations}
    with open(os.path.join(VERIF, 'evidence', f'{prop}.json'), 'w') as f:
        json.dump(ev, f, indent=1, default=str)


if __name__ == '__main__':
    sys.exit(main())
