"""Symbolic values: one universal z3 datatype `Val` + Python-side type hints."""
from __future__ import annotations

import ast
from dataclasses import dataclass, field, replace
from fractions import Fraction
from typing import Any

import z3

_V = z3.Datatype('Val')
_V.declare('none')
_V.declare('b', ('bv', z3.BoolSort()))
_V.declare('num', ('nv', z3.RealSort()))
_V.declare('s', ('sv', z3.IntSort()))        # string atom (see A-STR-ATOM)
_V.declare('ref', ('rv', z3.IntSort()))      # heap reference
_V.declare('nil')
_V.declare('tup', ('hd', _V), ('tl', _V))    # immutable tuple as cons list
Val = _V.create()

I, R, B = z3.IntSort(), z3.RealSort(), z3.BoolSort()


# ---------------------------------------------------------------------------
# Types (Python-side hints)
# ---------------------------------------------------------------------------
@dataclass(frozen=True)
class T:
    kind: str                      # none bool int real str ref tuple list dict set mat vec any py opt
    cls: str | None = None         # ref: class name
    args: tuple = ()               # list: (elem,), dict: (k, v), tuple: (t1..tn), opt: (t,)

    def __repr__(self):
        if self.kind == 'ref':
            return f'ref[{self.cls}]'
        if self.args:
            return f'{self.kind}[{",".join(map(repr, self.args))}]'
        return self.kind


ANY = T('any')
NONE = T('none')
BOOL = T('bool')
INT = T('int')
REAL = T('real')
STR = T('str')
MAT = T('mat')
VEC = T('vec')
PY = T('py')


def TList(e: T = ANY) -> T:
    return T('list', args=(e,))


def TDict(k: T = ANY, v: T = ANY) -> T:
    return T('dict', args=(k, v))


def TSet(e: T = ANY) -> T:
    return T('set', args=(e,))


def TTuple(*ts: T) -> T:
    return T('tuple', args=tuple(ts))


def TRef(cls: str) -> T:
    return T('ref', cls=cls)


def TOpt(t: T) -> T:
    if t.kind in ('opt', 'any', 'none'):
        return t
    return T('opt', args=(t,))


_SIMPLE = {
    'int': INT, 'float': REAL, 'bool': BOOL, 'str': STR, 'None': NONE, 'Any': ANY,
    'bytes': STR, 'object': ANY, 'np.ndarray': MAT, 'ndarray': MAT, 'numpy.ndarray': MAT,
    'pd.DataFrame': T('ref', cls='DataFrame'), 'DataFrame': T('ref', cls='DataFrame'),
    'pd.Series': T('ref', cls='Series'), 'real': REAL, 'mat': MAT, 'vec': VEC, 'any': ANY,
    'np.float64': REAL, 'complex': REAL, 'Number': REAL, 'ExpressionOrNumeric': ANY,
}


def parse_type(node: ast.expr | str | None, known_class=lambda n: None) -> T:
    """Type hint from an annotation AST (or its source text)."""
    if node is None:
        return ANY
    if isinstance(node, str):
        try:
            node = ast.parse(node, mode='eval').body
        except SyntaxError:
            return ANY
    if isinstance(node, ast.Constant):
        if node.value is None:
            return NONE
        if isinstance(node.value, str):
            return parse_type(node.value, known_class)
        return ANY
    if isinstance(node, ast.BinOp) and isinstance(node.op, ast.BitOr):
        l, r = parse_type(node.left, known_class), parse_type(node.right, known_class)
        if l.kind == 'none':
            return TOpt(r)
        if r.kind == 'none':
            return TOpt(l)
        if l == r:
            return l
        if {l.kind, r.kind} <= {'int', 'real'}:
            return REAL
        return ANY
    if isinstance(node, (ast.Name, ast.Attribute)):
        txt = ast.unparse(node)
        if txt in _SIMPLE:
            return _SIMPLE[txt]
        if txt in ('list', 'List', 'Iterable', 'Sequence'):
            return TList()
        if txt in ('dict', 'Dict', 'Mapping'):
            return TDict()
        if txt in ('set', 'Set'):
            return TSet()
        if txt in ('tuple', 'Tuple'):
            return T('tuple')
        key = known_class(txt)
        if key:
            return TRef(key)
        return ANY
    if isinstance(node, ast.Subscript):
        head = ast.unparse(node.value).split('.')[-1]
        sl = node.slice
        parts = list(sl.elts) if isinstance(sl, ast.Tuple) else [sl]
        if head in ('list', 'List', 'Iterable', 'Sequence', 'Iterator'):
            return TList(parse_type(parts[0], known_class))
        if head in ('set', 'Set', 'frozenset'):
            return TSet(parse_type(parts[0], known_class))
        if head in ('dict', 'Dict', 'Mapping'):
            if len(parts) == 2:
                return TDict(parse_type(parts[0], known_class), parse_type(parts[1], known_class))
            if isinstance(parts[0], ast.Slice):   # dict[str:float] typo style used in the repo
                return TDict(parse_type(parts[0].lower, known_class), parse_type(parts[0].upper, known_class))
            return TDict()
        if head in ('tuple', 'Tuple'):
            if len(parts) == 2 and isinstance(parts[1], ast.Constant) and parts[1].value is Ellipsis:
                return TList(parse_type(parts[0], known_class))
            return TTuple(*[parse_type(p, known_class) for p in parts])
        if head == 'Optional':
            return TOpt(parse_type(parts[0], known_class))
        if head == 'type':
            return PY
        key = known_class(head)
        if key:
            return TRef(key)
        return ANY
    return ANY


# ---------------------------------------------------------------------------
# Values
# ---------------------------------------------------------------------------
CUR: list = [None]      # the State being executed (set by the executor); list snapshots live per state


class V:
    """Symbolic value: z3 term of sort Val + Python-side knowledge.

    For LIST values the concrete snapshots (`items`: all elements, `tail`: known last elements)
    are stored in the State that is being executed (State.snap, keyed by the list reference), not
    in this object, because V objects are shared between forked states."""
    __slots__ = ('t', 'ty', '_items', 'py', 'lit', 'tok', 'raw', '_tail')

    def __init__(self, t, ty=None, items=None, py=None, lit=None, tok=None, raw=None, tail=None):
        self.t = t
        self.ty = ty if ty is not None else ANY
        self._items = None
        self._tail = None
        self.py = py
        self.lit = lit
        self.tok = tok
        self.raw = raw
        if items is not None:
            self.items = items
        if tail is not None:
            self.tail = tail

    @property
    def kind(self):
        return self.ty.kind

    def _rid(self):
        t = self.t
        if z3.is_app(t) and t.decl().eq(Val.ref):
            return t.arg(0).get_id()
        return ('v', t.get_id())

    def _is_list(self):
        return self.ty.kind == 'list' and self.t is not None and CUR[0] is not None

    @property
    def items(self):
        if self._is_list():
            sn = CUR[0].snap.get(self._rid())
            return sn[0] if sn else None
        return self._items

    @items.setter
    def items(self, val):
        if self._is_list():
            sn = CUR[0].snap.get(self._rid())
            CUR[0].snap[self._rid()] = (val, None if val is not None else (sn[1] if sn else None))
        else:
            self._items = val

    @property
    def tail(self):
        if self._is_list():
            sn = CUR[0].snap.get(self._rid())
            return sn[1] if sn else None
        return self._tail

    @tail.setter
    def tail(self, val):
        if self._is_list():
            sn = CUR[0].snap.get(self._rid())
            CUR[0].snap[self._rid()] = (sn[0] if sn else None, val)
        else:
            self._tail = val

    def with_ty(self, ty: T) -> 'V':
        v = V(self.t, ty, None, self.py, self.lit, self.tok, self.raw, None)
        v._items = self._items
        v._tail = self._tail
        return v

    def __repr__(self):
        return f'V({self.ty!r}, {str(self.t)[:60]})'


_fresh_ctr = [0]


def fresh_name(prefix: str) -> str:
    _fresh_ctr[0] += 1
    return f'{prefix}!{_fresh_ctr[0]}'


def fresh_val(prefix: str) -> Any:
    return z3.Const(fresh_name(prefix), Val)


def fresh_int(prefix: str) -> Any:
    return z3.Int(fresh_name(prefix))


def fresh_real(prefix: str) -> Any:
    return z3.Real(fresh_name(prefix))


# -- string atoms -------------------------------------------------------------
class Atoms:
    """String literals as integer atoms, ordered like Python orders the strings.

    A-STR-ATOM: strings are compared only by ==, < and used as keys; every finite set
    of strings embeds order-isomorphically into the integers, so atoms are Ints.  The
    literals' mutual order is asserted as a background chain l1 < l2 < ... < ln.
    """

    def __init__(self):
        self.table: dict[str, Any] = {}

    def atom(self, s: str):
        if s not in self.table:
            self.table[s] = z3.Int('lit!' + repr(s))
        return self.table[s]

    def axioms(self) -> list:
        keys = sorted(self.table)
        out = []
        for a, b in zip(keys, keys[1:]):
            out.append(self.table[a] < self.table[b])
        return out


ATOMS = Atoms()


def reset_atoms():
    ATOMS.table.clear()


# -- constructors -------------------------------------------------------------
def v_none() -> V:
    return V(Val.none, NONE, lit=None)


def v_bool(b) -> V:
    if isinstance(b, bool):
        return V(Val.b(z3.BoolVal(b)), BOOL, lit=b)
    return V(Val.b(b), BOOL)


def _to_real(x):
    if isinstance(x, bool):
        return z3.RealVal(int(x))
    if isinstance(x, int):
        return z3.RealVal(x)
    if isinstance(x, float):
        fr = Fraction(x)
        return z3.RealVal(f'{fr.numerator}/{fr.denominator}')
    if isinstance(x, Fraction):
        return z3.RealVal(f'{x.numerator}/{x.denominator}')
    if z3.is_int(x):
        return z3.ToReal(x)
    return x


def v_int(i) -> V:
    if isinstance(i, int):
        return V(Val.num(z3.RealVal(i)), INT, lit=i, raw=z3.IntVal(i))
    if z3.is_int(i):
        return V(Val.num(z3.ToReal(i)), INT, raw=i)
    return V(Val.num(i), INT)


def v_real(r) -> V:
    if isinstance(r, (int, float, Fraction)):
        return V(Val.num(_to_real(r)), REAL, lit=float(r) if not isinstance(r, Fraction) else r)
    return V(Val.num(_to_real(r)), REAL)


def v_str(s) -> V:
    if isinstance(s, str):
        return V(Val.s(ATOMS.atom(s)), STR, lit=s)
    return V(Val.s(s), STR)


def v_ref(r, cls: str | None) -> V:
    return V(Val.ref(r), T('ref', cls=cls))


def v_tuple(items: list[V]) -> V:
    t = Val.nil
    for it in reversed(items):
        t = Val.tup(it.t, t)
    return V(t, TTuple(*[i.ty for i in items]), items=list(items))


def v_py(obj) -> V:
    return V(None, PY, py=obj)


def v_any(t, ty: T = ANY) -> V:
    return V(t, ty)


# -- accessors ----------------------------------------------------------------
def as_real(v: V):
    """z3 Real term of a numeric-kinded value."""
    if v.kind == 'bool':
        return z3.If(Val.bv(v.t), z3.RealVal(1), z3.RealVal(0))
    return z3.simplify(Val.nv(v.t)) if z3.is_app(v.t) and v.t.decl().eq(Val.num) else Val.nv(v.t)


def as_int(v: V):
    if v.raw is not None and v.kind in ('int', 'bool'):
        return v.raw
    r = as_real(v)
    # ToInt(ToReal(k)) -> k
    if z3.is_app(r) and r.decl().kind() == z3.Z3_OP_TO_REAL:
        return r.arg(0)
    if z3.is_rational_value(r) and r.denominator_as_long() == 1:
        return z3.IntVal(r.numerator_as_long())
    return z3.ToInt(r)


def as_bool_raw(v: V):
    if z3.is_app(v.t) and v.t.decl().eq(Val.b):
        return v.t.arg(0)
    return Val.bv(v.t)


def as_atom(v: V):
    if z3.is_app(v.t) and v.t.decl().eq(Val.s):
        return v.t.arg(0)
    return Val.sv(v.t)


def as_ref(v: V):
    if z3.is_app(v.t) and v.t.decl().eq(Val.ref):
        return v.t.arg(0)
    return Val.rv(v.t)


def is_none(v: V):
    if v.kind == 'none':
        return z3.BoolVal(True)
    if v.kind in ('bool', 'int', 'real', 'str', 'ref', 'list', 'dict', 'set', 'tuple', 'mat', 'vec', 'py'):
        return z3.BoolVal(False)
    return Val.is_none(v.t)


_ufs: dict[tuple, Any] = {}


def uf(name: str, *sorts):
    """Uninterpreted function by name and signature (last sort is the range)."""
    key = (name,) + tuple(str(s) for s in sorts)
    if key not in _ufs:
        _ufs[key] = z3.Function(name, *sorts)
    return _ufs[key]


def join_ty(a: T, b: T) -> T:
    """Least common type hint of two values that are merged at a join."""
    if a == b:
        return a
    opt = False
    if a.kind == 'opt':
        a, opt = a.args[0], True
    if b.kind == 'opt':
        b, opt = b.args[0], True
    if a.kind == 'none':
        return TOpt(b)
    if b.kind == 'none':
        return TOpt(a)
    if a == b:
        j = a
    elif a.kind in ('int', 'real', 'bool') and b.kind in ('int', 'real', 'bool'):
        j = INT if {a.kind, b.kind} <= {'int', 'bool'} else REAL
    elif a.kind == b.kind and a.kind in ('list', 'dict', 'set') and len(a.args) == len(b.args):
        j = T(a.kind, args=tuple(join_ty(x, y) for x, y in zip(a.args, b.args)))
    elif a.kind == 'ref' and b.kind == 'ref':
        j = T('ref', cls=None)
    else:
        return ANY
    return TOpt(j) if opt else j


def type_invariant(v: V, depth: int = 0) -> list:
    """Facts implied by the type hint of a value (assumed for inputs / heap reads)."""
    k = v.kind
    t = v.t
    if k == 'none':
        return [t == Val.none]
    if k == 'bool':
        return [Val.is_b(t)]
    if k == 'int':
        return [Val.is_num(t), z3.IsInt(Val.nv(t))]
    if k == 'real':
        return [Val.is_num(t)]
    if k == 'str':
        return [Val.is_s(t)]
    if k in ('ref', 'list', 'dict', 'set'):
        return [Val.is_ref(t)]
    if k in ('mat', 'vec'):
        return [z3.Not(Val.is_none(t))]
    if k == 'opt':
        inner = V(t, v.ty.args[0])
        fs = type_invariant(inner, depth + 1)
        if not fs:
            return []
        return [z3.Or(t == Val.none, z3.And(*fs))]
    return []
