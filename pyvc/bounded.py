"""Running bounded stand-ins (real code under /venv/bin/python) from the driver."""
import json
import os
import subprocess
import time

from .driver import Extra, VENV_PY, VERIF


def run_native(name: str, script: str, args: list[str], bound: str, timeout=900, env=None) -> Extra:
    """script prints one JSON object {'cases': n, 'failures': [...]}; exit 0 ok / 1 failures."""
    t0 = time.time()
    e = dict(os.environ)
    e.pop('PYTHONPATH', None)
    repo = os.environ.get('VERIF_REPO')
    if repo and repo != '/repo':
        e['PYTHONPATH'] = os.path.join(repo, 'src')
    if env:
        e.update(env)
    try:
        r = subprocess.run([VENV_PY, os.path.join(VERIF, 'bounded', script)] + args, capture_output=True,
                           text=True, timeout=timeout, cwd='/tmp', env=e)
    except subprocess.TimeoutExpired:
        return Extra(name, 'bounded', 'unknown', 'native', time.time() - t0, 'timeout', bound=bound)
    line = (r.stdout.strip().splitlines() or [''])[-1]
    try:
        d = json.loads(line)
    except Exception:
        return Extra(name, 'bounded', 'error', 'native', time.time() - t0,
                     (r.stdout + r.stderr)[-1500:], bound=bound)
    if d.get('failures'):
        return Extra(name, 'bounded', 'failed', 'native', time.time() - t0,
                     json.dumps(d['failures'][:3], default=str)[:1500], witness={'failures': d['failures'][:60]},
                     bound=bound, cases=d.get('cases', 0))
    return Extra(name, 'bounded', 'discharged', 'native', time.time() - t0, '', bound=bound, cases=d.get('cases', 0))
