"""Registry of spec functions (pure mathematical functions usable in contract text)."""
from __future__ import annotations

import importlib
import os

SPECS: dict = {}


def spec(name):
    def deco(f):
        SPECS[name] = f
        return f
    return deco


def load_specs() -> dict:
    d = os.path.join(os.path.dirname(os.path.dirname(os.path.abspath(__file__))), 'specs')
    for fn in sorted(os.listdir(d)):
        if fn.endswith('.py') and not fn.startswith('_'):
            importlib.import_module('specs.' + fn[:-3])
    return SPECS
