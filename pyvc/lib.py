"""LIBSPEC: symbolic semantics (assumed contracts) of the builtins / library members that the
verified functions use.  Everything here is part of the trusted base and is listed as
such in the evidence (each handler that fires is recorded through ctx.note)."""
from __future__ import annotations

import os
import ast
import hashlib
from dataclasses import dataclass
from typing import Callable

import z3

from . import vals as VV
from .state import Raised, State, Unsupported
from .vals import (ANY, BOOL, INT, MAT, NONE, PY, REAL, STR, VEC, I, R, T, TDict, TList, TOpt,
                   TSet, TTuple, V, Val, as_atom, as_bool_raw, as_int, as_real, as_ref,
                   fresh_int, fresh_name, fresh_val, is_none, type_invariant, uf, v_any,
                   v_bool, v_int, v_none, v_py, v_real, v_ref, v_str, v_tuple)

HOOKS: dict[str, list] = {k: [] for k in ('ref_iter', 'ref_subscript', 'ref_contains', 'ref_attr',
                                              'ref_method', 'construct_special', 'exec_with')}



# ---------------------------------------------------------------------------
# array-valued definitions
# ---------------------------------------------------------------------------
NAMED_ARRAYS = os.environ.get('PYVC_NAMED_ARRAYS', '0') == '1'


def mk_array(st, xs: list, body, tag='arr'):
    """Array `lambda xs: body` stored in the heap / used as a sequence.

    z3 lambdas inside stored arrays make quantified queries return `unknown` quickly (reported by three agents).  With
    PYVC_NAMED_ARRAYS=1 the array is a fresh constant A with the pointwise axiom  forall xs. A[xs] == body  (pattern
    A[xs]): the same theory, friendlier to E-matching.  Under a binder the body mentions bound variables, so the lambda
    is kept there."""
    if not NAMED_ARRAYS or st.bound or len(xs) != 1:
        return z3.Lambda(xs, body)
    x = xs[0]
    a = z3.Const(fresh_name(tag), z3.ArraySort(x.sort(), body.sort()))
    sel = z3.Select(a, x)
    st.pc.append(z3.ForAll([x], sel == body, patterns=[sel]))
    return a

def hook(kind):
    """Register an extension handler (pyvc/libext/*.py): returns None to decline."""
    def deco(f):
        HOOKS[kind].append(f)
        return f
    return deco


FMAX = z3.Real('FMAX')          # np.finfo(float).max  -- a positive real constant
FMAX_AXIOMS = [FMAX > 10 ** 300]

# library members modelled as pure uninterpreted functions (same arguments -> same result)
PURE_LIB: dict[str, T] = {
    'numpy.nan_to_num': None,       # None -> result has the type of the first argument
    'numpy.sqrt': None, 'numpy.log': None, 'numpy.exp': None, 'numpy.abs': None,
    'numpy.sin': None, 'numpy.cos': None,
    'numpy.diag': None, 'numpy.cov': MAT, 'numpy.atleast_2d': MAT, 'numpy.full_like': MAT, 'numpy.argmin': INT,
    'numpy.argmax': INT, 'numpy.array': None, 'numpy.asarray': None, 'numpy.sum': REAL,
    'numpy.isfinite': ANY, 'numpy.all': BOOL, 'numpy.any': BOOL, 'numpy.dot': MAT,
    'numpy.outer': MAT, 'numpy.zeros': MAT, 'numpy.ones': MAT, 'numpy.identity': MAT,
    'numpy.zeros_like': None, 'numpy.transpose': None, 'numpy.maximum': None,
    'numpy.minimum': None, 'numpy.isnan': ANY, 'numpy.float64': REAL,
    'numpy.linalg.norm': REAL, 'numpy.linalg.inv': MAT, 'numpy.linalg.pinv': MAT,
    'numpy.sign': None, 'numpy.empty': MAT, 'numpy.asarray': None, 'multiprocessing.cpu_count': INT, 'numpy.power': None, 'numpy.log1p': None, 'numpy.expm1': None,
    'scipy.linalg.pinv': MAT, 'scipy.linalg.inv': MAT, 'scipy.linalg.norm': REAL,
    'scipy.linalg.eigh': TTuple(VEC, MAT), 'scipy.linalg.svd': TTuple(MAT, VEC, MAT),
    'scipy.stats.norm.cdf': None, 'scipy.stats.norm.ppf': None, 'scipy.stats.norm.pdf': None,
    'scipy.stats.chi2.ppf': REAL, 'scipy.stats.chi2.cdf': REAL,
    'math.sqrt': REAL, 'math.log': REAL, 'math.exp': REAL, 'math.floor': INT, 'math.ceil': INT,
    'math.isfinite': BOOL, 'math.isnan': BOOL, 'math.pow': REAL,
    'copy.deepcopy': None, 'copy.copy': None,
}


# A-TRANSC: the only facts known about transcendental / root functions over the reals
# (instantiated at each application)
REAL_AXIOMS = {
    'numpy.sqrt': [lambda r, x: z3.Implies(x > 0, r > 0), lambda r, x: z3.Implies(x == 0, r == 0),
                   lambda r, x: z3.Implies(x >= 0, r >= 0)],
    'math.sqrt': [lambda r, x: z3.Implies(x > 0, r > 0), lambda r, x: z3.Implies(x == 0, r == 0),
                  lambda r, x: z3.Implies(x >= 0, r >= 0)],
    'numpy.exp': [lambda r, x: r > 0],
    'math.exp': [lambda r, x: r > 0],
    'numpy.abs': [lambda r, x: r == z3.If(x >= 0, x, -x)],
    'scipy.stats.norm.cdf': [lambda r, x: z3.And(r >= 0, r <= 1)],
}


def canon_lib(dotted: str) -> str:
    if dotted.startswith('scipy.linalg.') or dotted.startswith('scipy.stats.'):
        return dotted
    return dotted


# ---------------------------------------------------------------------------
# iteration views
# ---------------------------------------------------------------------------
@dataclass
class View:
    n: object                                  # z3 Int: number of elements
    get: Callable[[State, object], V]          # element at (z3 Int) position


def iter_view(ex, st: State, v: V, node=None) -> View:
    k = v.kind
    if k == 'py' and v.py[0] == 'range':
        lo, hi, step = v.py[1], v.py[2], v.py[3]
        if step is None:
            n = z3.If(hi > lo, hi - lo, 0)
            return View(z3.simplify(n), lambda s, i: v_int(z3.simplify(lo + i)))
        raise Unsupported('range with step')
    if k == 'py' and v.py[0] == 'enumerate':
        inner = iter_view(ex, st, v.py[1], node)
        start = v.py[2]
        return View(inner.n, lambda s, i: v_tuple([v_int(z3.simplify(i + start)), inner.get(s, i)]))
    if k == 'py' and v.py[0] == 'zip':
        views = [iter_view(ex, st, x, node) for x in v.py[1]]
        n = views[0].n
        for w in views[1:]:
            n = z3.If(w.n < n, w.n, n)
        return View(z3.simplify(n), lambda s, i: v_tuple([w.get(s, i) for w in views]))
    if k == 'py' and v.py[0] == 'specseq':
        n_, arr_, ety_ = v.py[1], v.py[2], v.py[3]
        return View(n_, lambda s, i: V(z3.Select(arr_, i), ety_))
    if k == 'py' and v.py[0] == 'dictview':
        d, what = v.py[1], v.py[2]
        n = st.list_len(d)
        kty = d.ty.args[0] if len(d.ty.args) == 2 else ANY

        def get(s, i, d=d, what=what):
            key = V(z3.Select(s.read(as_ref(d), '$elems'), i), kty)
            if what == 'keys':
                return key
            val = s.dict_get(d, key)
            return val if what == 'values' else v_tuple([key, val])
        return View(n, get)
    if k == 'tuple' and v.items is not None:
        items = v.items

        def get(s, i):
            c = z3.simplify(i)
            if not z3.is_int_value(c):
                raise Unsupported('symbolic index into a tuple')
            return items[c.as_long()]
        return View(z3.IntVal(len(items)), get)
    if k == 'list':
        if v.items is not None:
            items = v.items
            ci = [None]

            def get(s, i, v=v):
                c = z3.simplify(i)
                if z3.is_int_value(c) and 0 <= c.as_long() < len(items):
                    return items[c.as_long()]
                return s.list_get(v, i)
            return View(z3.IntVal(len(items)), get)
        return View(st.list_len(v), lambda s, i, v=v: s.list_get(v, i))
    if k == 'dict':
        return iter_view(ex, st, v_py(('dictview', v, 'keys')), node)
    if k == 'set':
        # unknown but fixed enumeration order: elems(i) are members, pairwise distinct,
        # and every member is enumerated
        ety = v.ty.args[0] if v.ty.args else ANY
        r = as_ref(v)
        n = uf('set_card', I, z3.ArraySort(Val, VV.B), I)(r, st.set_dom(v))
        en = uf('set_enum', z3.ArraySort(Val, VV.B), I, Val)
        dom = st.set_dom(v)
        ex.ctx.note('LIBSPEC set iteration: arbitrary fixed order, each member once')
        return View(n, lambda s, i: V(en(dom, i), ety))
    if k == 'ref':
        h = ref_iter(ex, st, v, node)
        if h is not None:
            return h
    raise Unsupported(f'iteration over {k} {v.py[0] if v.py else ""}')


def ref_iter(ex, st, v, node):
    for h in HOOKS['ref_iter']:
        r = h(ex, st, v, node)
        if r is not None:
            return r
    return None


def exec_with(ex, st, node):
    for h in HOOKS['exec_with']:
        r = h(ex, st, node)
        if r is not None:
            return r
    raise Unsupported('with statement')


# ---------------------------------------------------------------------------
# subscripts / membership
# ---------------------------------------------------------------------------
def subscript(ex, st: State, obj: V, sl, node) -> V:
    k = obj.kind
    if k == 'opt':
        ex.oblige(st, 'safe:none', 'subscript', z3.Not(Val.is_none(obj.t)), node)
        obj = V(obj.t, obj.ty.args[0], items=obj.items)
        k = obj.kind
    if k == 'dict':
        key = ex.ev(st, sl)
        present = st.dict_has(obj, key)
        if ex.catches(st, 'KeyError'):
            if not ex.decide(st, present):
                raise Raised('KeyError')
        else:
            ex.oblige(st, 'safe:key', '', present, node)
        v = st.dict_get(obj, key)
        st.assume_type(v, guard=present)     # in a specification nothing obliges the key to be present
        return v
    if isinstance(sl, ast.Slice):
        lo = ex.ev(st, sl.lower) if sl.lower is not None else None
        hi = ex.ev(st, sl.upper) if sl.upper is not None else None
        if sl.step is not None:
            raise Unsupported('slice with step')
        return slice_of(ex, st, obj, lo, hi, node)
    if k in ('mat', 'vec'):
        idx = ex.ev(st, sl) if not (isinstance(sl, ast.Tuple) and any(isinstance(e, ast.Slice) for e in sl.elts)) else None
        if idx is None:
            parts = []
            for e in sl.elts:
                if isinstance(e, ast.Slice):
                    if e.lower is None and e.upper is None and e.step is None:
                        parts.append(None)
                    else:
                        raise Unsupported('partial slice of an array')
                else:
                    parts.append(ex.ev(st, e))
            if len(parts) == 2 and parts[0] is None and parts[1] is not None:
                return V(uf('mat_col', Val, I, Val)(obj.t, as_int(parts[1])), VEC)
            if len(parts) == 2 and parts[1] is None and parts[0] is not None:
                return V(uf('mat_row', Val, I, Val)(obj.t, as_int(parts[0])), VEC)
            raise Unsupported('array slice')
        if idx.kind == 'tuple' and idx.items is not None and len(idx.items) == 2:
            i, j = idx.items
            return v_real(uf('mat_get', Val, I, I, R)(obj.t, as_int(i), as_int(j)))
        if idx.kind in ('int', 'bool'):
            if k == 'vec':
                return v_real(uf('vec_get', Val, I, R)(obj.t, as_int(idx)))
            row = V(uf('mat_row', Val, I, Val)(obj.t, as_int(idx)), VEC)
            st.assume_type(row)
            return row
        return V(uf('arr_index', Val, Val, Val)(obj.t, idx.t), obj.ty)
    idx = ex.ev(st, sl)
    if k == 'py' and obj.py[0] in ('specseq', 'dictview', 'range', 'enumerate', 'zip'):
        n, arr, ety = seq_parts(ex, st, obj)
        i = as_int(idx)
        if not st.is_nonneg(i):
            i = z3.If(i < 0, i + n, i)
        v = V(z3.Select(arr, z3.simplify(i)), ety)
        st.assume_type(v, guard=z3.And(i >= 0, i < n))     # only positions of the sequence are typed
        return v
    if k == 'list':
        if obj.items is not None and idx.lit is not None and isinstance(idx.lit, int):
            n = len(obj.items)
            j = idx.lit if idx.lit >= 0 else idx.lit + n
            if 0 <= j < n:
                return obj.items[j]
        i = as_int(idx)
        n = st.list_len(obj)
        if obj.tail:
            back = z3.simplify(n - i)
            if z3.is_int_value(back) and 1 <= back.as_long() <= len(obj.tail):
                return obj.tail[len(obj.tail) - back.as_long()]
            if idx.lit is not None and isinstance(idx.lit, int) and -len(obj.tail) <= idx.lit < 0:
                return obj.tail[idx.lit]
        if st.is_nonneg(i):
            i = z3.simplify(i)
            inb = i < n
        else:
            i = z3.simplify(z3.If(i < 0, i + n, i))
            inb = z3.And(i >= 0, i < n)
        if ex.catches(st, 'IndexError'):
            if not ex.decide(st, inb):
                raise Raised('IndexError')
        else:
            ex.oblige(st, 'safe:index', '', inb, node)
        v = st.list_get(obj, i)
        # only positions of the list are typed: a fresh list reads `none` beyond its length, and inside a specification
        # nothing obliges the index to be in range (an unguarded type fact would make the state inconsistent)
        st.assume_type(v, guard=inb)
        return v
    if k == 'tuple':
        if obj.items is not None and idx.lit is not None:
            return obj.items[idx.lit]
        if idx.lit is not None:
            t = obj.t
            for _ in range(idx.lit):
                t = Val.tl(t)
            ety = obj.ty.args[idx.lit] if len(obj.ty.args) > idx.lit else ANY
            return V(Val.hd(t), ety)
        raise Unsupported('symbolic index into a tuple')
    if k == 'any':
        return V(uf('any_index', Val, Val, Val)(obj.t, ex.box(st, idx)), ANY)
    if k == 'str':
        return V(Val.s(uf('str_index', I, I, I)(as_atom(obj), as_int(idx))), STR)
    if k == 'ref':
        h = ref_subscript(ex, st, obj, idx, node)
        if h is not None:
            return h
        if obj.ty.cls and ex.repo.resolve_method(obj.ty.cls, '__getitem__'):
            return ex.dunder(st, obj, '__getitem__', [idx], node)
        if obj.items is not None and idx.lit is not None:
            return obj.items[idx.lit]
    raise Unsupported(f'subscript of {k}')


def ref_subscript(ex, st, obj, idx, node):
    for h in HOOKS['ref_subscript']:
        r = h(ex, st, obj, idx, node)
        if r is not None:
            return r
    return None


def slice_of(ex, st, obj: V, lo, hi, node) -> V:
    if obj.kind == 'list':
        n = st.list_len(obj)
        a = z3.IntVal(0) if lo is None else as_int(lo)
        b = n if hi is None else as_int(hi)
        a = z3.If(a < 0, a + n, a)
        b = z3.If(b < 0, b + n, b)
        a = z3.If(a < 0, 0, z3.If(a > n, n, a))
        b = z3.If(b < 0, 0, z3.If(b > n, n, b))
        m = z3.simplify(z3.If(b > a, b - a, 0))
        el = st.list_elems(obj)
        j = z3.Int(fresh_name('j'))
        arr = mk_array(st, [j], z3.Select(el, j + z3.simplify(a)))
        ety = obj.ty.args[0] if obj.ty.args else ANY
        if st.spec:
            return spec_seq(ex, st, m, arr, ety)
        out = st.new_list_sym(m, arr, ety)
        if obj.items is not None:
            ca, cb = z3.simplify(a), z3.simplify(b)
            if z3.is_int_value(ca) and z3.is_int_value(cb):
                out.items = obj.items[ca.as_long():cb.as_long()]
        return out
    if obj.kind == 'str':
        lo_t = z3.IntVal(0) if lo is None else as_int(lo)
        hi_t = z3.IntVal(-1) if hi is None else as_int(hi)
        if obj.lit is not None and (lo is None or lo.lit is not None) and (hi is None or hi.lit is not None):
            return v_str(obj.lit[(lo.lit if lo else None):(hi.lit if hi else None)])
        return V(Val.s(uf('str_slice', I, I, I, I)(as_atom(obj), lo_t, hi_t)), STR)
    if obj.kind == 'tuple' and obj.items is not None:
        l_ = lo.lit if lo is not None else None
        h_ = hi.lit if hi is not None else None
        return v_tuple(obj.items[l_:h_])
    raise Unsupported(f'slice of {obj.kind}')


def contains(ex, st: State, container: V, item: V, node):
    container = ex.unopt(st, container, node, 'in')
    k = container.kind
    if k == 'py' and container.py[0] == 'specseq':
        n, arr, _ = seq_parts(ex, st, container)
        j = z3.Int(fresh_name('j'))
        return z3.Exists([j], z3.And(j >= 0, j < n, z3.Select(arr, j) == ex.box(st, item)))
    if k == 'dict':
        return st.dict_has(container, item)
    if k == 'set':
        return z3.Select(st.set_dom(container), ex.box(st, item))
    if k == 'tuple' and container.items is not None:
        if not container.items:
            return z3.BoolVal(False)
        return z3.Or(*[ex.py_eq(st, item, it) for it in container.items])
    if k == 'list':
        if container.items is not None:
            if not container.items:
                return z3.BoolVal(False)
            return z3.Or(*[ex.py_eq(st, item, it) for it in container.items])
        j = z3.Int(fresh_name('j'))
        n = st.list_len(container)
        return z3.Exists([j], z3.And(j >= 0, j < n, z3.Select(st.list_elems(container), j) == ex.box(st, item)))
    if k == 'str':
        if container.lit is not None and item.lit is not None:
            return z3.BoolVal(item.lit in container.lit)
        return uf('str_contains', I, I, VV.B)(as_atom(container), as_atom(item))
    if k == 'py' and container.py[0] == 'dictview':
        d, what = container.py[1], container.py[2]
        if what == 'keys':
            return st.dict_has(d, item)
    if k == 'ref':
        h = ref_contains(ex, st, container, item, node)
        if h is not None:
            return h
    raise Unsupported(f'membership in {k}')


def ref_contains(ex, st, container, item, node):
    for h in HOOKS['ref_contains']:
        r = h(ex, st, container, item, node)
        if r is not None:
            return r
    return None


# ---------------------------------------------------------------------------
# strings
# ---------------------------------------------------------------------------
FMT_SHAPES: dict[str, list] = {}     # fmt!<key> -> parts (literal str | ('hole', conv, spec))


def fstring(ex, st: State, node: ast.JoinedStr) -> V:
    parts: list = []
    holes: list[V] = []
    shape = []
    for p in node.values:
        if isinstance(p, ast.Constant):
            parts.append(str(p.value))
            shape.append('L:' + str(p.value))
        elif isinstance(p, ast.FormattedValue):
            v = ex.ev(st, p.value)
            spec = ''
            if p.format_spec is not None:
                sv = fstring(ex, st, p.format_spec)
                if sv.lit is None:
                    raise Unsupported('dynamic format spec')
                spec = sv.lit
            conv = {-1: '', 115: '!s', 114: '!r', 97: '!a'}[p.conversion]
            if v.kind == 'ref' and v.ty.cls and ex.repo.resolve_method(v.ty.cls, '__str__') and not spec:
                v = ex.call_method(st, v, '__str__', [], {}, node)
            elif v.kind == 'ref' and v.ty.cls and ex.repo.resolve_method(v.ty.cls, '__repr__') and not spec:
                v = ex.call_method(st, v, '__repr__', [], {}, node)
            parts.append((v, conv, spec))
            holes.append(v)
            shape.append(f'H{conv}:{spec}')
    if all(isinstance(p, str) or (p[0].lit is not None and p[0].kind in ('str', 'int', 'bool') and not p[1]) for p in parts):
        try:
            s = ''.join(p if isinstance(p, str) else format(p[0].lit, p[2]) for p in parts)
            out = v_str(s)
            out.tok = parts
            return out
        except Exception:
            pass
    if len(parts) == 1 and not isinstance(parts[0], str) and parts[0][0].kind == 'str' and not parts[0][2] and parts[0][1] in ('', '!s'):
        return parts[0][0]
    key = hashlib.md5('|'.join(shape).encode()).hexdigest()[:10]
    FMT_SHAPES[f'fmt!{key}'] = [p if isinstance(p, str) else ('hole', p[1], p[2]) for p in parts]
    f = uf(f'fmt!{key}', *([Val] * len(holes)), I)
    args = [ex.box(st, h) for h in holes]
    atom = f(*args) if holes else VV.ATOMS.atom(''.join(p for p in parts if isinstance(p, str)))
    out = V(Val.s(atom), STR)
    out.tok = parts
    return out


def str_concat(ex, st, l: V, r: V) -> V:
    if l.lit is not None and r.lit is not None:
        out = v_str(l.lit + r.lit)
    else:
        out = V(Val.s(uf('str_cat', I, I, I)(as_atom(l), as_atom(r))), STR)
        if l.lit == '':
            return r
        if r.lit == '':
            return l
    lt = l.tok if l.tok is not None else ([l.lit] if l.lit is not None else [(l, '', '')])
    rt = r.tok if r.tok is not None else ([r.lit] if r.lit is not None else [(r, '', '')])
    out.tok = list(lt) + list(rt)
    return out


def str_format_percent(ex, st, l, r):
    raise Unsupported('% formatting')


# ---------------------------------------------------------------------------
# lists, dicts, sets
# ---------------------------------------------------------------------------
def spec_seq(ex, st: State, n, arr, ety=ANY) -> V:
    """A sequence value inside a specification (no allocation): ('specseq', n, arr)."""
    v = v_py(('specseq', n, arr, ety))
    return v


def spec_list(ex, st, items: list[V]) -> V:
    arr = z3.K(I, Val.none)
    for k, it in enumerate(items):
        arr = z3.Store(arr, z3.IntVal(k), ex.box(st, it))
    v = spec_seq(ex, st, z3.IntVal(len(items)), arr)
    return v


def seq_parts(ex, st: State, v: V):
    """(length, contents array, elem type) of a list value or a spec sequence."""
    if v.kind == 'py' and v.py[0] == 'specseq':
        return v.py[1], v.py[2], v.py[3]
    if v.kind == 'list':
        return st.list_len(v), st.list_elems(v), (v.ty.args[0] if v.ty.args else ANY)
    if v.kind == 'tuple' and v.items is not None:
        arr = z3.K(I, Val.none)
        for k, it in enumerate(v.items):
            arr = z3.Store(arr, z3.IntVal(k), ex.box(st, it))
        return z3.IntVal(len(v.items)), arr, ANY
    if v.kind == 'py' and v.py[0] in ('dictview', 'range', 'enumerate', 'zip'):
        view = iter_view(ex, st, v)
        j = z3.Int(fresh_name('j'))
        el = view.get(st, j)
        return view.n, mk_array(st, [j], ex.box(st, el)), el.ty
    if v.kind == 'dict':
        return seq_parts(ex, st, v_py(('dictview', v, 'keys')))
    raise Unsupported(f'not a sequence: {v.kind}')


def list_concat(ex, st: State, l: V, r: V) -> V:
    ln, la, lt = seq_parts(ex, st, l)
    rn, ra, rt = seq_parts(ex, st, r)
    j = z3.Int(fresh_name('j'))
    arr = mk_array(st, [j], z3.If(j < ln, z3.Select(la, j), z3.Select(ra, j - ln)))
    ety = lt if lt == rt else (lt if rt.kind == 'any' else (rt if lt.kind == 'any' else ANY))
    if st.spec:
        return spec_seq(ex, st, z3.simplify(ln + rn), arr, ety)
    out = st.new_list_sym(z3.simplify(ln + rn), arr, ety)
    if l.items is not None and r.items is not None:
        out.items = l.items + r.items
    elif r.items is not None:
        out.tail = list(r.items)
    elif r.tail is not None:
        out.tail = list(r.tail)
    return out


def list_extend(ex, st: State, lst: V, other: V):
    ln, la, lt = seq_parts(ex, st, lst)
    rn, ra, rt = seq_parts(ex, st, other)
    j = z3.Int(fresh_name('j'))
    arr = mk_array(st, [j], z3.If(j < ln, z3.Select(la, j), z3.Select(ra, j - ln)))
    r = as_ref(lst)
    st.write(r, '$len', z3.simplify(ln + rn))
    st.write(r, '$elems', arr)
    if lst.items is not None and other.items is not None:
        lst.items = lst.items + other.items
    else:
        lst.items = None
        if other.items is not None:
            lst.tail = list(other.items)
        elif other.tail is not None:
            lst.tail = list(other.tail)
        else:
            lst.tail = None


def dict_update(ex, st: State, d: V, src: V):
    if src.kind != 'dict':
        raise Unsupported('dict update from non-dict')
    r, s = as_ref(d), as_ref(src)
    dom_d, dom_s = st.read(r, '$dom'), st.read(s, '$dom')
    map_d, map_s = st.read(r, '$map'), st.read(s, '$map')
    x = z3.Const(fresh_name('x'), Val)
    st.write(r, '$dom', mk_array(st, [x], z3.Or(z3.Select(dom_d, x), z3.Select(dom_s, x))))
    st.write(r, '$map', mk_array(st, [x], z3.If(z3.Select(dom_s, x), z3.Select(map_s, x), z3.Select(map_d, x))))
    # key order: keys of d, then the keys of src that are new, in src order -- abstracted:
    # fresh order constrained only in length bounds
    n_d, n_s = st.read(r, '$len'), st.read(s, '$len')
    n_new = fresh_int('nkeys')
    st.assume(z3.And(n_new >= n_d, n_new >= n_s, n_new <= n_d + n_s))
    el_new = z3.Const(fresh_name('keys'), z3.ArraySort(I, Val))
    el_d = st.read(r, '$elems')
    j = z3.Int(fresh_name('j'))
    st.assume(z3.ForAll([j], z3.Implies(z3.And(j >= 0, j < n_d), z3.Select(el_new, j) == z3.Select(el_d, j))))
    st.write(r, '$len', n_new)
    st.write(r, '$elems', el_new)
    ex.ctx.note('LIBSPEC dict.update/merge: right-biased; key order abstracted beyond the left prefix')


def dict_merge(ex, st, l: V, r: V) -> V:
    out = st.new_dict(*(l.ty.args if len(l.ty.args) == 2 else (ANY, ANY)))
    dict_update(ex, st, out, l)
    dict_update(ex, st, out, r)
    return out


def set_of(ex, st: State, v: V) -> V:
    """set(iterable)"""
    if v.kind == 'set':
        return st.new_set(v.ty.args[0] if v.ty.args else ANY, st.set_dom(v))
    n, arr, ety = seq_parts(ex, st, v)
    x = z3.Const(fresh_name('x'), Val)
    j = z3.Int(fresh_name('j'))
    dom = mk_array(st, [x], z3.Exists([j], z3.And(j >= 0, j < n, z3.Select(arr, j) == x)))
    return st.new_set(ety, dom)


def set_union(ex, st, l, r):
    x = z3.Const(fresh_name('x'), Val)
    dom = mk_array(st, [x], z3.Or(z3.Select(st.set_dom(l), x), z3.Select(st.set_dom(r), x)))
    return st.new_set(l.ty.args[0] if l.ty.args else ANY, dom)


def set_inter(ex, st, l, r):
    x = z3.Const(fresh_name('x'), Val)
    dom = mk_array(st, [x], z3.And(z3.Select(st.set_dom(l), x), z3.Select(st.set_dom(r), x)))
    return st.new_set(l.ty.args[0] if l.ty.args else ANY, dom)


def set_diff(ex, st, l, r):
    x = z3.Const(fresh_name('x'), Val)
    dom = mk_array(st, [x], z3.And(z3.Select(st.set_dom(l), x), z3.Not(z3.Select(st.set_dom(r), x))))
    return st.new_set(l.ty.args[0] if l.ty.args else ANY, dom)


# ---------------------------------------------------------------------------
# comprehensions
# ---------------------------------------------------------------------------
def comprehension(ex, st: State, node, kind: str) -> V:
    if len(node.generators) != 1:
        raise Unsupported('nested comprehension generators')
    gen = node.generators[0]
    itv = ex.ev(st, gen.iter)
    view = iter_view(ex, st, itv, gen.iter)
    n_c = ex.concrete_int(view.n)
    saved = dict(st.locals)
    try:
        if n_c is not None and n_c <= 32 and not st.bound:
            # concrete length: evaluate element by element
            items, keys = [], []
            conds = []
            for k in range(n_c):
                ex.assign(st, gen.target, view.get(st, z3.IntVal(k)))
                cs = [ex.truth(st, ex.ev(st, c)) for c in gen.ifs]
                c = z3.simplify(z3.And(*cs)) if cs else z3.BoolVal(True)
                if z3.is_false(c):
                    continue
                if not z3.is_true(c):
                    conds.append(c)
                    if kind == 'list':
                        raise Unsupported('list comprehension with a symbolic filter')
                st.guards.append(c)
                try:
                    if kind == 'dict':
                        keys.append((ex.ev(st, node.key), c))
                        items.append(ex.ev(st, node.value))
                    else:
                        items.append((ex.ev(st, node.elt), c))
                finally:
                    st.guards.pop()
            if kind == 'list':
                if st.spec:
                    return spec_list(ex, st, [i for i, _ in items])
                return st.new_list([i for i, _ in items])
            if kind == 'set':
                dom = z3.K(Val, z3.BoolVal(False))
                for it, c in items:
                    dom = z3.If(c, z3.Store(dom, ex.box(st, it), z3.BoolVal(True)), dom) if not z3.is_true(c) else z3.Store(dom, ex.box(st, it), z3.BoolVal(True))
                tys = {i.ty for i, _ in items}
                return st.new_set(tys.pop() if len(tys) == 1 else ANY, dom)
            d = st.new_dict()
            kts, vts = set(), set()
            for (kv, c), vv in zip(keys, items):
                if not z3.is_true(c):
                    raise Unsupported('dict comprehension with a symbolic filter')
                st.dict_set(d, kv, V(ex.box(st, vv), vv.ty))
                kts.add(kv.ty)
                vts.add(vv.ty)
            return d.with_ty(TDict(kts.pop() if len(kts) == 1 else ANY, vts.pop() if len(vts) == 1 else ANY))
        # symbolic length: element as a function of the position
        j = z3.Int(fresh_name('j'))
        guard = z3.And(j >= 0, j < view.n)
        st.bound.append((j, guard))
        try:
            ex.assign(st, gen.target, view.get(st, j))
            cs = [ex.truth(st, ex.ev(st, c)) for c in gen.ifs]
            cond = z3.And(*cs) if cs else None
            if kind == 'dict':
                kv = ex.ev(st, node.key)
                vv = ex.ev(st, node.value)
            else:
                ev_ = ex.ev(st, node.elt)
        finally:
            st.bound.pop()
        if kind == 'list':
            if cond is not None:
                # filtered list: abstract result, every element comes from a kept position
                ex.ctx.note('LIBSPEC filtered list comprehension abstracted (members only)')
                m = fresh_int('flen')
                arr = z3.Const(fresh_name('fl'), z3.ArraySort(I, Val))
                src = z3.Const(fresh_name('fsrc'), z3.ArraySort(I, I))
                i2 = z3.Int(fresh_name('i'))
                elem_at = z3.substitute(ex.box(st, ev_), (j, z3.Select(src, i2)))
                cond_at = z3.substitute(cond, (j, z3.Select(src, i2)))
                st.assume(z3.And(m >= 0, m <= view.n))
                st.assume(z3.ForAll([i2], z3.Implies(z3.And(i2 >= 0, i2 < m), z3.And(
                    z3.Select(src, i2) >= 0, z3.Select(src, i2) < view.n, cond_at,
                    z3.Select(arr, i2) == elem_at))))
                i3 = z3.Int(fresh_name('i'))
                st.assume(z3.ForAll([i2, i3], z3.Implies(z3.And(i2 >= 0, i2 < i3, i3 < m),
                                                        z3.Select(src, i2) < z3.Select(src, i3))))
                # completeness: every kept position appears
                pos = z3.Const(fresh_name('fpos'), z3.ArraySort(I, I))
                st.assume(z3.ForAll([j], z3.Implies(z3.And(guard, cond), z3.And(
                    z3.Select(pos, j) >= 0, z3.Select(pos, j) < m,
                    z3.Select(src, z3.Select(pos, j)) == j))))
                if st.spec:
                    return spec_seq(ex, st, m, arr, ev_.ty)
                return st.new_list_sym(m, arr, ev_.ty)
            arr = mk_array(st, [j], ex.box(st, ev_))
            if st.spec:
                return spec_seq(ex, st, view.n, arr, ev_.ty)
            return st.new_list_sym(view.n, arr, ev_.ty)
        if kind == 'set':
            x = z3.Const(fresh_name('x'), Val)
            body = z3.And(guard, ex.box(st, ev_) == x)
            if cond is not None:
                body = z3.And(body, cond)
            dom = mk_array(st, [x], z3.Exists([j], body))
            return st.new_set(ev_.ty, dom)
        # dict
        if cond is not None:
            raise Unsupported('filtered dict comprehension of symbolic length')
        x = z3.Const(fresh_name('x'), Val)
        dom = mk_array(st, [x], z3.Exists([j], z3.And(guard, kv.t == x)))
        mp = z3.Const(fresh_name('cmap'), z3.ArraySort(Val, Val))
        j2 = z3.Int(fresh_name('j'))
        key2 = z3.substitute(kv.t, (j, j2))
        later_same = z3.Exists([j2], z3.And(j2 > j, j2 < view.n, key2 == kv.t))
        st.assume(z3.ForAll([j], z3.Implies(z3.And(guard, z3.Not(later_same)),
                                            z3.Select(mp, kv.t) == ex.box(st, vv))))
        d = st.new_dict(kv.ty, vv.ty)
        r = as_ref(d)
        st.write(r, '$dom', dom)
        st.write(r, '$map', mp)
        # key order = first occurrences; when keys are pairwise distinct it is the iteration order
        klen = fresh_int('klen')
        kel = z3.Const(fresh_name('kel'), z3.ArraySort(I, Val))
        st.assume(z3.And(klen >= 0, klen <= view.n))
        distinct = z3.ForAll([j, j2], z3.Implies(z3.And(j >= 0, j < j2, j2 < view.n), kv.t != key2))
        st.assume(z3.Implies(distinct, z3.And(klen == view.n, z3.ForAll([j], z3.Implies(guard, z3.Select(kel, j) == kv.t)))))
        st.write(r, '$len', klen)
        st.write(r, '$elems', kel)
        return d
    finally:
        st.locals = saved


# ---------------------------------------------------------------------------
# builtins
# ---------------------------------------------------------------------------
def _b_len(ex, st, args, kw, node):
    v = args[0]
    if v.kind == 'opt':
        ex.oblige(st, 'safe:none', 'len', z3.Not(Val.is_none(v.t)), node)
        v = V(v.t, v.ty.args[0], items=v.items)
    if v.kind in ('list', 'dict'):
        if v.kind == 'list' and v.items is not None:
            return v_int(len(v.items))
        return v_int(st.list_len(v))
    if v.kind == 'tuple' and v.items is not None:
        return v_int(len(v.items))
    if v.kind == 'py' and v.py[0] == 'specseq':
        return v_int(v.py[1])
    if v.kind == 'py' and v.py[0] in ('dictview', 'range', 'enumerate', 'zip'):
        return v_int(iter_view(ex, st, v).n)
    if v.kind == 'str':
        if v.lit is not None:
            return v_int(len(v.lit))
        n = uf('str_len', I, I)(as_atom(v))
        st.assume(n >= 0)
        return v_int(n)
    if v.kind == 'set':
        n = uf('set_card', I, z3.ArraySort(Val, VV.B), I)(as_ref(v), st.set_dom(v))
        st.assume(n >= 0)
        return v_int(n)
    if v.kind in ('mat', 'vec'):
        n = uf('arr_len', Val, I)(v.t)
        st.assume(n >= 0)
        return v_int(n)
    if v.kind == 'ref' and v.ty.cls and ex.repo.resolve_method(v.ty.cls, '__len__'):
        return ex.dunder(st, v, '__len__', [], node)
    if v.kind in ('ref', 'any'):
        n = uf('obj_len', Val, I)(v.t)
        st.assume(n >= 0)
        return v_int(n)
    raise Unsupported(f'len of {v.kind}')


def _b_range(ex, st, args, kw, node):
    if len(args) == 1:
        return v_py(('range', z3.IntVal(0), as_int(args[0]), None))
    if len(args) == 2:
        return v_py(('range', as_int(args[0]), as_int(args[1]), None))
    raise Unsupported('range with step')


def _b_enumerate(ex, st, args, kw, node):
    start = as_int(args[1]) if len(args) > 1 else (as_int(kw['start']) if 'start' in kw else z3.IntVal(0))
    return v_py(('enumerate', args[0], start))


def _b_zip(ex, st, args, kw, node):
    return v_py(('zip', list(args)))


def _b_isinstance(ex, st, args, kw, node):
    v, c = args
    classes = c.items if (c.kind == 'tuple' and c.items is not None) else [c]
    res = []
    for cv in classes:
        res.append(_isinstance1(ex, st, v, cv))
    return v_bool(z3.simplify(z3.Or(*res)))


def _isinstance1(ex, st, v: V, cv: V):
    if cv.kind != 'py':
        raise Unsupported('isinstance with a symbolic class')
    p = cv.py
    k = v.kind
    if p[0] == 'builtin' or p[0] == 'lib':
        name = p[1].split('.')[-1]
        table = {'int': ('int', 'bool'), 'float': ('real',), 'bool': ('bool',), 'str': ('str',),
                 'list': ('list',), 'dict': ('dict',), 'tuple': ('tuple',), 'set': ('set',),
                 'bytes': (), 'Number': ('int', 'real', 'bool'), 'ndarray': ('mat', 'vec'),
                 'integer': ('int',), 'floating': ('real',), 'float64': ('real',), 'int64': ('int',),
                 'bool_': ('bool',), 'DataFrame': (), 'Series': ()}
        if name in ('DataFrame', 'Series') and k == 'ref':
            return z3.BoolVal(v.ty.cls == name)
        if name not in table:
            raise Unsupported(f'isinstance against {p[1]}')
        if k in ('any', 'opt'):
            t = v.t
            alts = []
            for kk in table[name]:
                if kk == 'int':
                    alts.append(z3.And(Val.is_num(t), z3.IsInt(Val.nv(t)), uf('is_pyint', Val, VV.B)(t)))
                elif kk == 'real':
                    alts.append(z3.And(Val.is_num(t), z3.Not(uf('is_pyint', Val, VV.B)(t))))
                elif kk == 'bool':
                    alts.append(Val.is_b(t))
                elif kk == 'str':
                    alts.append(Val.is_s(t))
                else:
                    alts.append(uf(f'is_{kk}', Val, VV.B)(t))
            return z3.Or(*alts) if alts else z3.BoolVal(False)
        return z3.BoolVal(k in table[name])
    if p[0] == 'class':
        ci = p[1]
        if k == 'ref' and v.ty.cls:
            if ex.repo.is_subclass(v.ty.cls, ci.name):
                return z3.BoolVal(True)
            if not ex.repo.is_subclass(ci.name, v.ty.cls):
                return z3.BoolVal(False)
            ids = [ex.class_id(c.name) for c in ex.repo.subclasses(ci.name)]
            return z3.Or(*[ex.cls_of(as_ref(v)) == i for i in ids])
        if k in ('any', 'opt'):
            ids = [ex.class_id(c.name) for c in ex.repo.subclasses(ci.name)]
            return z3.And(Val.is_ref(v.t), z3.Or(*[ex.cls_of(Val.rv(v.t)) == i for i in ids]))
        return z3.BoolVal(False)
    raise Unsupported(f'isinstance against {p[:2]}')


def _b_float(ex, st, args, kw, node):
    v = args[0]
    if v.kind in ('int', 'real', 'bool'):
        if v.lit is not None:
            return v_real(float(v.lit))
        return v_real(as_real(v))
    if v.kind == 'str':
        if v.lit is not None:
            try:
                return v_real(float(v.lit))
            except ValueError:
                raise Raised('ValueError')
        return v_real(uf('float_of_str', I, R)(as_atom(v)))
    if v.kind in ('any', 'opt'):
        return v_real(uf('float_of', Val, R)(v.t))
    raise Unsupported(f'float({v.kind})')


def _b_int(ex, st, args, kw, node):
    v = args[0]
    if v.kind in ('int', 'bool'):
        return v_int(as_int(v))
    if v.kind == 'real':
        r = as_real(v)
        return v_int(z3.If(r >= 0, z3.ToInt(r), -z3.ToInt(-r)))
    if v.kind == 'str':
        if v.lit is not None:
            return v_int(int(v.lit))
        return v_int(uf('int_of_str', I, I)(as_atom(v)))
    if v.kind in ('any', 'opt'):
        return v_int(uf('int_of', Val, I)(v.t))
    raise Unsupported(f'int({v.kind})')


def _b_str(ex, st, args, kw, node):
    if not args:
        return v_str('')
    v = args[0]
    if v.kind == 'str':
        return v
    if v.lit is not None and v.kind in ('int', 'bool'):
        return v_str(str(v.lit))
    if v.kind == 'ref' and v.ty.cls and ex.repo.resolve_method(v.ty.cls, '__str__'):
        return ex.call_method(st, v, '__str__', [], {}, node)
    out = V(Val.s(uf('str_of', Val, I)(ex.box(st, v))), STR)
    out.tok = [(v, '!s', '')]
    return out


def _b_bool(ex, st, args, kw, node):
    return v_bool(ex.truth(st, args[0])) if args else v_bool(False)


def _b_abs(ex, st, args, kw, node):
    v = args[0]
    if v.kind == 'int':
        a = as_int(v)
        return v_int(z3.If(a >= 0, a, -a))
    if v.kind in ('real', 'bool'):
        a = as_real(v)
        return v_real(z3.If(a >= 0, a, -a))
    return V(uf('abs_u', Val, Val)(v.t), v.ty)


def _minmax(ex, st, args, kw, node, is_min: bool):
    if len(args) == 1:
        seq = args[0]
        if seq.items is not None:
            args = seq.items
        else:
            if seq.kind in ('vec', 'mat', 'any'):
                return v_real(uf('seq_min' if is_min else 'seq_max', Val, R)(seq.t))
            n, arr, ety = seq_parts(ex, st, seq)
            f = uf('list_min' if is_min else 'list_max', I, z3.ArraySort(I, Val), Val)
            res = V(f(n, arr), ety)
            j = z3.Int(fresh_name('j'))
            if ety.kind in ('int', 'real'):
                rr = Val.nv(res.t)
                st.assume(z3.Implies(n > 0, z3.ForAll([j], z3.Implies(z3.And(j >= 0, j < n), (rr <= Val.nv(z3.Select(arr, j))) if is_min else (rr >= Val.nv(z3.Select(arr, j)))))))
                st.assume(z3.Implies(n > 0, z3.Exists([j], z3.And(j >= 0, j < n, z3.Select(arr, j) == res.t))))
                st.assume(Val.is_num(res.t))
            return res
    if not args:
        raise Raised('ValueError')
    cur = args[0]
    for a in args[1:]:
        if cur.kind in ('int', 'real', 'bool') and a.kind in ('int', 'real', 'bool'):
            both_int = cur.kind in ('int', 'bool') and a.kind in ('int', 'bool')
            x, y = (as_int(cur), as_int(a)) if both_int else (as_real(cur), as_real(a))
            c = (y < x) if is_min else (y > x)
            r = z3.If(c, y, x)
            cur = v_int(r) if both_int else v_real(r)
        else:
            raise Unsupported('min/max of non-numeric values')
    return cur


def _b_sum(ex, st, args, kw, node):
    seq = args[0]
    if seq.items is not None:
        cur = args[1] if len(args) > 1 else v_int(0)
        for it in seq.items:
            cur = ex.binop(st, ast.Add(), cur, it, node)
        return cur
    if seq.kind in ('vec', 'mat'):
        return v_real(uf('arr_sum', Val, R)(seq.t))
    n, arr, ety = seq_parts(ex, st, seq)
    return sum_of_seq(ex, st, n, arr, ety)


def sum_of_seq(ex, st, n, arr, ety):
    """Σ_{j<n} arr[j] through the recursive spec function seq_sum (axiomatised on demand)."""
    f = uf('seq_sum', z3.ArraySort(I, Val), I, R)
    ex.ctx.note('LIBSPEC sum(): seq_sum with unfolding axioms at 0 and n')
    st.assume(f(arr, z3.IntVal(0)) == 0)
    st.assume(z3.Implies(n > 0, f(arr, n) == f(arr, n - 1) + Val.nv(z3.Select(arr, n - 1))))
    return v_real(f(arr, n)) if ety.kind != 'int' else v_int(f(arr, n))


def _b_sorted(ex, st, args, kw, node):
    if kw:
        raise Unsupported('sorted with key/reverse')
    src = args[0]
    n, arr, ety = seq_parts(ex, st, src)
    is_dict_keys = src.kind == 'dict' or (src.kind == 'py' and src.py[0] == 'dictview' and src.py[2] == 'keys')
    out_arr = uf('sorted_arr', z3.ArraySort(I, Val), I, z3.ArraySort(I, Val))(arr, n)
    perm = uf('sorted_perm', z3.ArraySort(I, Val), I, z3.ArraySort(I, I))(arr, n)
    inv = uf('sorted_inv', z3.ArraySort(I, Val), I, z3.ArraySort(I, I))(arr, n)
    j, j2 = z3.Int(fresh_name('j')), z3.Int(fresh_name('j'))
    ex.ctx.note('LIBSPEC sorted(): ordered permutation of its argument (bijection perm/inv)')
    # permutation: out[j] = arr[perm[j]], perm bijective on [0,n)
    st.assume(z3.ForAll([j], z3.Implies(z3.And(j >= 0, j < n), z3.And(
        z3.Select(perm, j) >= 0, z3.Select(perm, j) < n,
        z3.Select(out_arr, j) == z3.Select(arr, z3.Select(perm, j)),
        z3.Select(inv, z3.Select(perm, j)) == j,
        z3.Select(inv, j) >= 0, z3.Select(inv, j) < n,
        z3.Select(perm, z3.Select(inv, j)) == j))))
    # order
    if ety.kind == 'str':
        key = lambda t: Val.sv(t)
    elif ety.kind in ('int', 'real'):
        key = lambda t: Val.nv(t)
    else:
        lt = uf('val_le', Val, Val, VV.B)
        key = None
    if key is not None:
        strict = is_dict_keys        # dict keys are pairwise distinct
        a, b = key(z3.Select(out_arr, j)), key(z3.Select(out_arr, j2))
        st.assume(z3.ForAll([j, j2], z3.Implies(z3.And(j >= 0, j < j2, j2 < n), (a < b) if strict else (a <= b))))
    else:
        st.assume(z3.ForAll([j, j2], z3.Implies(z3.And(j >= 0, j < j2, j2 < n), lt(z3.Select(out_arr, j), z3.Select(out_arr, j2)))))
    if st.spec:
        return spec_seq(ex, st, n, out_arr, ety)
    return st.new_list_sym(n, out_arr, ety)


def _b_list(ex, st, args, kw, node):
    if not args:
        return st.new_list([])
    src = args[0]
    if src.items is not None and src.kind in ('list', 'tuple'):
        return st.new_list(list(src.items))
    n, arr, ety = seq_parts(ex, st, src)
    if st.spec:
        return spec_seq(ex, st, n, arr, ety)
    return st.new_list_sym(n, arr, ety)


def _b_tuple(ex, st, args, kw, node):
    if not args:
        return v_tuple([])
    src = args[0]
    if src.items is not None:
        return v_tuple(list(src.items))
    if src.kind == 'tuple':
        return src
    raise Unsupported('tuple() of a sequence of unknown length')


def _b_dict(ex, st, args, kw, node):
    d = st.new_dict()
    if args:
        src = args[0]
        if src.kind == 'dict':
            d = st.new_dict(*(src.ty.args if len(src.ty.args) == 2 else (ANY, ANY)))
            r, s = as_ref(d), as_ref(src)
            for f in ('$len', '$elems', '$dom', '$map'):
                st.write(r, f, st.read(s, f))
        elif src.kind == 'py' and src.py[0] == 'zip' and len(src.py[1]) == 2:
            ks, vs_ = src.py[1]
            if ks.items is not None and vs_.items is not None:
                for a, b in zip(ks.items, vs_.items):
                    st.dict_set(d, a, b)
            else:
                raise Unsupported('dict(zip()) of symbolic length')
        else:
            raise Unsupported('dict() from this argument')
    if kw:
        # dict(a, **b) is handled in call dispatch; explicit keywords:
        for k, v in kw.items():
            st.dict_set(d, v_str(k), v)
    return d


def _b_set(ex, st, args, kw, node):
    if not args:
        return st.new_set()
    return set_of(ex, st, args[0])


def _b_print(ex, st, args, kw, node):
    return print_to(ex, st, args, kw, node)


def print_to(ex, st, args, kw, node):
    if 'file' in kw:
        raise Unsupported('print to a file (needs the ghost file system)')
    return v_none()


def _b_type(ex, st, args, kw, node):
    v = args[0]
    if v.kind == 'ref' and v.ty.cls:
        return v_py(('typeof', v))
    k2name = {'int': 'int', 'real': 'float', 'str': 'str', 'bool': 'bool', 'list': 'list', 'dict': 'dict', 'tuple': 'tuple', 'set': 'set'}
    if v.kind in k2name:
        return v_py(('builtin', k2name[v.kind]))
    raise Unsupported('type() of this value')


def _b_id(ex, st, args, kw, node):
    v = args[0]
    # A-ID: id() is injective on live objects: the reference itself
    ex.ctx.note('A-ID: id(obj) modelled as the (injective) heap reference')
    if v.kind in ('ref', 'list', 'dict', 'set', 'any', 'opt'):
        return v_int(as_ref(v))
    raise Unsupported(f'id() of {v.kind}')


def _b_any_all(is_all):
    def f(ex, st, args, kw, node):
        seq = args[0]
        if seq.items is not None:
            cs = [ex.truth(st, it) for it in seq.items]
            if not cs:
                return v_bool(is_all)
            return v_bool(z3.And(*cs) if is_all else z3.Or(*cs))
        n, arr, ety = seq_parts(ex, st, seq)
        j = z3.Int(fresh_name('j'))
        el = V(z3.Select(arr, j), ety)
        c = ex.truth(st, el)
        rng = z3.And(j >= 0, j < n)
        return v_bool(z3.ForAll([j], z3.Implies(rng, c)) if is_all else z3.Exists([j], z3.And(rng, c)))
    return f


def _b_round(ex, st, args, kw, node):
    return v_real(uf('round', R, R)(as_real(args[0])))


def _b_hasattr(ex, st, args, kw, node):
    raise Unsupported('hasattr')


def _b_getattr(ex, st, args, kw, node):
    if args[1].lit is None:
        raise Unsupported('getattr with a symbolic name')
    return ex.get_attr(st, args[0], args[1].lit, node)


def _b_callable(ex, st, args, kw, node):
    return v_bool(args[0].kind == 'py')


def _b_open(ex, st, args, kw, node):
    raise Unsupported('open() outside the ghost file system')


def _b_super(ex, st, args, kw, node):
    fi = None
    for fr in reversed(ex.frames):
        if fr.func is not None and fr.func.cls:
            fi = fr.func
            break
    if fi is None or 'self' not in st.locals:
        raise Unsupported('super() outside a method')
    return v_py(('super', st.locals['self'], fi.cls, fi.module))


def _b_iter(ex, st, args, kw, node):
    raise Unsupported('iter()')


def _b_repr(ex, st, args, kw, node):
    v = args[0]
    out = V(Val.s(uf('repr_of', Val, I)(ex.box(st, v))), STR)
    out.tok = [(v, '!r', '')]
    return out


def _b_reversed(ex, st, args, kw, node):
    src = args[0]
    if src.items is not None:
        return st.new_list(list(reversed(src.items))) if not st.spec else spec_list(ex, st, list(reversed(src.items)))
    n, arr, ety = seq_parts(ex, st, src)
    j = z3.Int(fresh_name('j'))
    rev = mk_array(st, [j], z3.Select(arr, n - 1 - j))
    return spec_seq(ex, st, n, rev, ety)


def _b_divmod(ex, st, args, kw, node):
    q = ex.binop(st, ast.FloorDiv(), args[0], args[1], node)
    r = ex.binop(st, ast.Mod(), args[0], args[1], node)
    return v_tuple([q, r])


BUILTINS: dict[str, Callable] = {
    'len': _b_len, 'range': _b_range, 'enumerate': _b_enumerate, 'zip': _b_zip,
    'isinstance': _b_isinstance, 'float': _b_float, 'int': _b_int, 'str': _b_str,
    'bool': _b_bool, 'abs': _b_abs,
    'min': lambda ex, st, a, k, n: _minmax(ex, st, a, k, n, True),
    'max': lambda ex, st, a, k, n: _minmax(ex, st, a, k, n, False),
    'sum': _b_sum, 'sorted': _b_sorted, 'list': _b_list, 'tuple': _b_tuple, 'dict': _b_dict,
    'set': _b_set, 'frozenset': _b_set, 'print': _b_print, 'type': _b_type, 'id': _b_id,
    'any': _b_any_all(False), 'all': _b_any_all(True), 'round': _b_round,
    'hasattr': _b_hasattr, 'getattr': _b_getattr, 'callable': _b_callable, 'open': _b_open,
    'super': _b_super, 'iter': _b_iter, 'repr': _b_repr, 'divmod': _b_divmod, 'reversed': _b_reversed,
    'bytes': _b_str, 'object': None,
}


# ---------------------------------------------------------------------------
# specification-only functions
# ---------------------------------------------------------------------------
def _s_old(ex, st, args, kw, node):
    raise Unsupported('old() must be applied syntactically')


def _spec_lambda_call(ex, st, lam: V, args: list[V]) -> V:
    return ex.call(st, lam, args, {}, None)


def _s_forall(ex, st, args, kw, node, exists=False):
    """forall(lambda i: P(i), lo, hi)  -- integers lo <= i < hi;
       forall(lambda x: P(x))           -- all values (Val)."""
    lam = args[0]
    if len(args) == 3:
        j = z3.Int(fresh_name('q'))
        lo, hi = as_int(args[1]), as_int(args[2])
        rng = z3.And(j >= lo, j < hi)
        if st.is_nonneg(lo):
            st.mark_nonneg(j)
        st.bound.append((j, rng))
        try:
            body = ex.truth(st, _spec_lambda_call(ex, st, lam, [v_int(j)]))
        finally:
            st.bound.pop()
        if exists:
            return v_bool(z3.Exists([j], z3.And(rng, body)))
        return v_bool(z3.ForAll([j], z3.Implies(rng, body)))
    x = z3.Const(fresh_name('qx'), Val)
    ty = ANY
    if 'ty' in kw:
        ty = ex.ptype(kw['ty'].lit)
    xv = V(x, ty)
    inv = type_invariant(xv)
    rng = z3.And(*inv) if inv else z3.BoolVal(True)
    st.bound.append((x, rng))
    try:
        body = ex.truth(st, _spec_lambda_call(ex, st, lam, [xv]))
    finally:
        st.bound.pop()
    if exists:
        return v_bool(z3.Exists([x], z3.And(rng, body)))
    return v_bool(z3.ForAll([x], z3.Implies(rng, body)))


def _s_implies(ex, st, args, kw, node):
    a = ex.truth(st, args[0])
    b = ex.truth(st, args[1])
    return v_bool(z3.Implies(a, b))


def _s_iff(ex, st, args, kw, node):
    return v_bool(ex.truth(st, args[0]) == ex.truth(st, args[1]))


def _s_ite(ex, st, args, kw, node):
    c = ex.truth(st, args[0])
    mv = ex.merge_vals([args[1], args[2]], [c, z3.BoolVal(True)])
    if mv is None:
        raise Unsupported('ite over unmergeable values')
    return mv


def _s_same(ex, st, args, kw, node):
    """same(a, b): identical values (structural equality of the Val terms)."""
    return v_bool(ex.box(st, args[0]) == ex.box(st, args[1]))


def _s_seq_eq(ex, st, args, kw, node):
    """seq_eq(a, b): sequences with the same length and the same elements in order."""
    an, aa, _ = seq_parts(ex, st, args[0])
    bn, ba, _ = seq_parts(ex, st, args[1])
    j = z3.Int(fresh_name('j'))
    return v_bool(z3.And(an == bn, z3.ForAll([j], z3.Implies(z3.And(j >= 0, j < an), z3.Select(aa, j) == z3.Select(ba, j)))))


def _s_keys_of(ex, st, args, kw, node):
    return v_py(('dictview', args[0], 'keys'))


def _s_is_int(ex, st, args, kw, node):
    return v_bool(z3.IsInt(as_real(args[0])))


def _s_typed(ex, st, args, kw, node):
    """typed(v, 'real'): re-type a value inside a specification."""
    return args[0].with_ty(ex.ptype(args[1].lit))


def _s_fmax(ex, st, args, kw, node):
    return v_real(FMAX)


def _s_uf(ex, st, args, kw, node):
    """app('name', args...) -- the uninterpreted LIBSPEC function `name` applied to args."""
    name = args[0].lit
    return call_lib(ex, st, name, args[1:], kw, node)


_SUMS: dict = {}


def _s_sum_range(ex, st, args, kw, node):
    """sum_range(lambda q: f(q), lo, hi) = sum of f(q) for lo <= q < hi (0 when hi <= lo).

    Encoded with one uninterpreted prefix-sum function S per (lambda, captured values):
    S(lo) = 0, and S(q+1) = S(q) + f(q) for q >= lo; instantiated at hi (and as a quantified
    axiom).  LEMMA sum-zero-tail (induction, stated in lean/SumLemmas.lean): if f vanishes on
    [a, b) then S(b) = S(a)."""
    lam, lo, hi = args
    if lam.kind != 'py' or lam.py[0] != 'lambda':
        raise Unsupported('sum_range needs a lambda')
    lnode, captured = lam.py[1], lam.py[2]
    free = sorted({n.id for n in ast.walk(lnode.body) if isinstance(n, ast.Name)} - {a.arg for a in lnode.args.args})
    cap_ids = tuple((n, captured[n].t.get_id() if (n in captured and captured[n].t is not None) else None) for n in free)
    # the sum depends on the heap: key by the fields that differ from the entry heap
    heap_ids = tuple(sorted((f, a.get_id()) for f, a in (st.heap0 if st.use_old else st.heap).items()
                            if f not in st.heap0 or not a.eq(st.heap0[f])))
    lo_t, hi_t = as_int(lo), as_int(hi)
    key = (ast.dump(lnode), cap_ids, heap_ids, lo_t.get_id())
    if key not in _SUMS:
        S = z3.Function(fresh_name('S'), I, R)
        _SUMS[key] = S
    S = _SUMS[key]

    def f_at(t):
        v = ex.call(st, lam, [v_int(t)], {}, node)
        return as_real(v)
    mark = ('sum', key)
    if mark not in st.ghost:
        st.ghost[mark] = True
        q = z3.Int(fresh_name('q'))
        st.bound.append((q, q >= lo_t))
        try:
            st.mark_nonneg(q) if st.is_nonneg(lo_t) else None
            fq = f_at(q)
        finally:
            st.bound.pop()
        st.pc.append(S(lo_t) == 0)
        st.pc.append(z3.ForAll([q], z3.Implies(q >= lo_t, S(q + 1) == S(q) + fq), patterns=[S(q + 1)]))
        a, b = z3.Int(fresh_name('a')), z3.Int(fresh_name('b'))
        fq2 = z3.substitute(fq, (q, a))
        # sum-zero-tail lemma
        st.pc.append(z3.ForAll([a, b], z3.Implies(
            z3.And(a >= lo_t, b >= a, z3.ForAll([q], z3.Implies(z3.And(q >= a, q < b), fq == 0))),
            S(b) == S(a)), patterns=[z3.MultiPattern(S(a), S(b))]))
        ex.ctx.note('LEMMA sum-zero-tail: a sum whose terms vanish on [a,b) does not change (induction; lean/SumLemmas.lean)')
    # explicit unfolding at the upper end
    h1 = z3.simplify(hi_t - 1)
    st.guards.append(hi_t > lo_t)
    try:
        f_last = f_at(h1)
    finally:
        st.guards.pop()
    st.pc.append(z3.Implies(hi_t > lo_t, S(hi_t) == S(h1) + f_last))
    return v_real(z3.If(hi_t > lo_t, S(hi_t), z3.RealVal(0)))


SPEC_BUILTINS: dict[str, Callable] = {
    'sum_range': _s_sum_range,
    'old': _s_old,
    'forall': _s_forall,
    'exists': lambda ex, st, a, k, n: _s_forall(ex, st, a, k, n, exists=True),
    'implies': _s_implies, 'iff': _s_iff, 'ite': _s_ite, 'same': _s_same, 'seq_eq': _s_seq_eq,
    'keys_of': _s_keys_of, 'is_int': _s_is_int, 'typed': _s_typed, 'FMAX': _s_fmax, 'app': _s_uf,
}


# ---------------------------------------------------------------------------
# library calls
# ---------------------------------------------------------------------------
LIB_HANDLERS: dict[str, Callable] = {}


def lib_handler(name):
    def deco(f):
        LIB_HANDLERS[name] = f
        return f
    return deco


def lib_attr(ex, st, dotted: str, name: str):
    full = f'{dotted}.{name}'
    if dotted == 'numpy.finfo(float)' and name == 'max':
        ex.ctx.note('LIBSPEC np.finfo(float).max: positive real constant FMAX')
        return v_real(FMAX)
    if full in ('numpy.inf', 'math.inf'):
        return v_real(z3.Real('INF'))
    if full in ('numpy.pi', 'math.pi'):
        return v_real(z3.Real('PI'))
    if full in ('numpy.nan',):
        return v_real(z3.Real('NAN'))
    return None


def pyobj_attr(ex, st, obj: V, name: str):
    p = obj.py
    if p[0] == 'super':
        _, selfv, cls, module = p
        ci = ex.repo.find_class(cls, module)
        for c in ex.repo.mro(ci)[1:]:
            if name in c.methods:
                return v_py(('boundfi', selfv, c.methods[name]))
        raise Unsupported(f'super().{name} not found')
    if p[0] == 'typeof':
        if name == '__name__':
            v = p[1]
            ci_ = ex.repo.find_class(v.ty.cls)
            return v_str(ci_.name if ci_ is not None else v.ty.cls.split('.')[-1])
    if p[0] == 'func' and name == '__name__':
        return v_str(p[1].name)
    return None


def call_pyobj(ex, st, fv: V, args, kwargs, node):
    p = fv.py
    if p[0] == 'boundfi':
        return ex.call_repo_function(st, p[2], [p[1]] + args, kwargs, node)
    if p[0] == 'typeof':
        ci = ex.repo.find_class(p[1].ty.cls)
        return ex.construct(st, ci, args, kwargs, node)
    return None


def ref_attr(ex, st, obj: V, name: str, node):
    for h in HOOKS['ref_attr']:
        r = h(ex, st, obj, name, node)
        if r is not None:
            return r
    return None


def ref_method(ex, st, recv: V, name: str, args, kwargs, node):
    for h in HOOKS['ref_method']:
        r = h(ex, st, recv, name, args, kwargs, node)
        if r is not None:
            return r
    return None


def construct_special(ex, st, ci, args, kwargs, node):
    for h in HOOKS['construct_special']:
        r = h(ex, st, ci, args, kwargs, node)
        if r is not None:
            return r
    return None


# plain record classes of dependencies: constructor stores its keyword/positional arguments as fields
LIB_RECORDS: dict[str, list[str]] = {
    'biogeme_optimization.function.FunctionData': ['function', 'gradient', 'hessian'],
}


def call_lib(ex, st: State, dotted: str, args: list[V], kwargs: dict[str, V], node) -> V:
    if dotted in LIB_RECORDS:
        names = LIB_RECORDS[dotted]
        vals_ = dict(zip(names, args))
        vals_.update(kwargs)
        r = st.new_ref(dotted.split('.')[-1])
        for nme in names:
            st.write(r, nme, ex.box(st, vals_[nme]) if nme in vals_ else Val.none)
        return v_ref(r, dotted.split('.')[-1])
    if dotted in LIB_HANDLERS:
        return LIB_HANDLERS[dotted](ex, st, args, kwargs, node)
    if dotted == 'numpy.finfo':
        return v_py(('lib', 'numpy.finfo(float)'))
    if dotted in PURE_LIB:
        return pure_call(ex, st, dotted, args, kwargs, PURE_LIB[dotted])
    raise Unsupported(f'library call {dotted} has no LIBSPEC entry (line {getattr(node, "lineno", 0)})')


def pure_call(ex, st, dotted: str, args, kwargs, rty: T | None) -> V:
    ex.ctx.note(f'LIBSPEC {dotted}: pure uninterpreted function')
    all_args = list(args) + [kwargs[k] for k in sorted(kwargs)]
    name = dotted + ('' if not kwargs else '$' + ','.join(sorted(kwargs)))
    first = all_args[0] if all_args else None
    if rty is None:
        rty = first.ty if first is not None else ANY
        if rty.kind == 'opt':
            rty = rty.args[0]
        if rty.kind == 'int':
            rty = REAL
    if first is not None and rty.kind == 'real' and all(a.kind in ('int', 'real', 'bool') for a in all_args):
        f = uf(name + '$R', *([R] * len(all_args)), R)
        xs = [as_real(a) for a in all_args]
        res = f(*xs)
        for ax in REAL_AXIOMS.get(dotted, []):
            st.assume(ax(res, *xs))
        return v_real(res)
    f = uf(name, *([Val] * len(all_args)), Val)
    res = V(f(*[ex.box(st, a) for a in all_args]), rty)
    st.assume_type(res)
    if rty.kind == 'tuple':
        items, t = [], res.t
        for ety in rty.args:
            items.append(V(Val.hd(t), ety))
            t = Val.tl(t)
        res.items = items
    return res


# ---------------------------------------------------------------------------
# methods of builtin values
# ---------------------------------------------------------------------------
def value_method(ex, st: State, recv: V, name: str, args, kwargs, node) -> V:
    k = recv.kind
    if k == 'list':
        return list_method(ex, st, recv, name, args, kwargs, node)
    if k == 'dict':
        return dict_method(ex, st, recv, name, args, kwargs, node)
    if k == 'set':
        return set_method(ex, st, recv, name, args, kwargs, node)
    if k == 'str':
        return str_method(ex, st, recv, name, args, kwargs, node)
    if k in ('mat', 'vec'):
        ex.ctx.note(f'LIBSPEC ndarray.{name}: pure uninterpreted method')
        rty = {'all': BOOL, 'any': BOOL, 'sum': REAL, 'tolist': TList(REAL), 'mean': REAL,
               'max': REAL, 'min': REAL}.get(name, recv.ty)
        f = uf(f'ndarray.{name}', *([Val] * (1 + len(args))), Val)
        res = V(f(recv.t, *[ex.box(st, a) for a in args]), rty)
        st.assume_type(res)
        return res
    if k == 'tuple':
        if name == 'count' or name == 'index':
            raise Unsupported('tuple method')
    raise Unsupported(f'method {name} of {k}')


def list_method(ex, st, lst: V, name, args, kwargs, node):
    r = as_ref(lst)
    if name == 'append':
        n = st.read(r, '$len')
        st.write(r, '$elems', z3.Store(st.read(r, '$elems'), n, ex.box(st, args[0])))
        st.write(r, '$len', z3.simplify(n + 1))
        if lst.items is not None:
            lst.items = lst.items + [args[0]]
        elif lst.tail is not None:
            lst.tail = lst.tail + [args[0]]
        else:
            lst.tail = [args[0]]
        if lst.ty.args and lst.ty.args[0].kind == 'any' and args[0].kind != 'any':
            cn = ex.concrete_int(n)
            if cn == 0:
                object.__setattr__(lst, 'ty', TList(args[0].ty))
        return v_none()
    if name == 'extend':
        list_extend(ex, st, lst, args[0])
        return v_none()
    if name == 'count':
        n, arr, _ = seq_parts(ex, st, lst)
        c = uf('seq_count', z3.ArraySort(I, Val), I, Val, I)(arr, n, ex.box(st, args[0]))
        j = z3.Int(fresh_name('j'))
        j2 = z3.Int(fresh_name('j'))
        x = ex.box(st, args[0])
        st.assume(c >= 0)
        st.assume((c >= 1) == z3.Exists([j], z3.And(j >= 0, j < n, z3.Select(arr, j) == x)))
        st.assume((c >= 2) == z3.Exists([j, j2], z3.And(j >= 0, j < j2, j2 < n, z3.Select(arr, j) == x, z3.Select(arr, j2) == x)))
        ex.ctx.note('LIBSPEC list.count: characterised for thresholds 1 and 2')
        return v_int(c)
    if name == 'index':
        n, arr, _ = seq_parts(ex, st, lst)
        x = ex.box(st, args[0])
        j = z3.Int(fresh_name('j'))
        present = z3.Exists([j], z3.And(j >= 0, j < n, z3.Select(arr, j) == x))
        if ex.catches(st, 'ValueError'):
            if not ex.decide(st, present):
                raise Raised('ValueError')
        else:
            ex.oblige(st, 'safe:index', 'list.index', present, node)
        i = fresh_int('idx')
        # guarded by presence: inside a specification nothing obliges x to occur in the list
        st.assume(z3.Implies(present, z3.And(i >= 0, i < n, z3.Select(arr, i) == x)))
        st.assume(z3.Implies(present, z3.ForAll([j], z3.Implies(z3.And(j >= 0, j < i), z3.Select(arr, j) != x))))
        return v_int(i)
    if name == 'copy':
        n, arr, ety = seq_parts(ex, st, lst)
        out = st.new_list_sym(n, arr, ety)
        out.items = list(lst.items) if lst.items is not None else None
        return out
    if name == 'pop' and not args:
        n = st.read(r, '$len')
        ex.oblige(st, 'safe:index', 'pop', n > 0, node)
        v = st.list_get(lst, n - 1)
        st.write(r, '$len', n - 1)
        lst.items = lst.items[:-1] if lst.items else None
        return v
    if name == 'sort' and not args and not kwargs:
        s = _b_sorted(ex, st, [lst], {}, node)
        st.write(r, '$elems', st.list_elems(s))
        lst.items = None
        return v_none()
    raise Unsupported(f'list.{name}')


def dict_method(ex, st, d: V, name, args, kwargs, node):
    if name in ('items', 'keys', 'values'):
        return v_py(('dictview', d, name))
    if name == 'get':
        key = args[0]
        default = args[1] if len(args) > 1 else v_none()
        present = st.dict_has(d, key)
        val = st.dict_get(d, key)
        mv = ex.merge_vals([val, default], [present, z3.BoolVal(True)])
        if mv is None:
            raise Unsupported('dict.get over unmergeable values')
        return mv
    if name == 'update':
        dict_update(ex, st, d, args[0])
        return v_none()
    if name == 'copy':
        return _b_dict(ex, st, [d], {}, node)
    if name == 'setdefault':
        key, default = args[0], args[1] if len(args) > 1 else v_none()
        present = st.dict_has(d, key)
        cur = st.dict_get(d, key)
        mv = ex.merge_vals([cur, default], [present, z3.BoolVal(True)])
        st.dict_set(d, key, mv)
        return mv
    raise Unsupported(f'dict.{name}')


def set_method(ex, st, s: V, name, args, kwargs, node):
    r = as_ref(s)
    if name == 'add':
        st.write(r, '$dom', z3.Store(st.read(r, '$dom'), ex.box(st, args[0]), z3.BoolVal(True)))
        return v_none()
    if name == 'union':
        cur = s
        for a in args:
            cur = set_union(ex, st, cur, a if a.kind == 'set' else set_of(ex, st, a))
        return cur
    if name == 'update':
        o = args[0] if args[0].kind == 'set' else set_of(ex, st, args[0])
        x = z3.Const(fresh_name('x'), Val)
        st.write(r, '$dom', mk_array(st, [x], z3.Or(z3.Select(st.read(r, '$dom'), x), z3.Select(st.set_dom(o), x))))
        return v_none()
    if name == 'issubset':
        o = args[0] if args[0].kind == 'set' else set_of(ex, st, args[0])
        x = z3.Const(fresh_name('x'), Val)
        return v_bool(z3.ForAll([x], z3.Implies(z3.Select(st.set_dom(s), x), z3.Select(st.set_dom(o), x))))
    if name == 'intersection':
        o = args[0] if args[0].kind == 'set' else set_of(ex, st, args[0])
        return set_inter(ex, st, s, o)
    if name == 'difference':
        o = args[0] if args[0].kind == 'set' else set_of(ex, st, args[0])
        return set_diff(ex, st, s, o)
    raise Unsupported(f'set.{name}')


def str_method(ex, st, s: V, name, args, kwargs, node):
    if s.lit is not None and all(a.lit is not None for a in args) and not kwargs and name in (
            'strip', 'lower', 'upper', 'startswith', 'endswith', 'replace', 'split', 'title',
            'lstrip', 'rstrip', 'isdigit', 'capitalize', 'format', 'encode', 'zfill', 'find'):
        res = getattr(s.lit, name)(*[a.lit for a in args])
        if isinstance(res, bool):
            return v_bool(res)
        if isinstance(res, str):
            return v_str(res)
        if isinstance(res, bytes):
            return v_str(res.decode('latin1'))
        if isinstance(res, int):
            return v_int(res)
        if isinstance(res, list):
            return st.new_list([v_str(x) for x in res])
    if name == 'encode':
        return s
    if name in ('strip', 'lower', 'upper', 'lstrip', 'rstrip', 'title', 'capitalize'):
        return V(Val.s(uf(f'str_{name}', I, I)(as_atom(s))), STR)
    if name in ('startswith', 'endswith'):
        return v_bool(uf(f'str_{name}', I, I, VV.B)(as_atom(s), as_atom(args[0])))
    if name == 'replace':
        return V(Val.s(uf('str_replace', I, I, I, I)(as_atom(s), as_atom(args[0]), as_atom(args[1]))), STR)
    if name == 'join':
        seq = args[0]
        if seq.items is not None and all(i.lit is not None for i in seq.items) and s.lit is not None:
            return v_str(s.lit.join(i.lit for i in seq.items))
        n, arr, ety = seq_parts(ex, st, seq)
        return V(Val.s(uf('str_join', I, I, z3.ArraySort(I, Val), I)(as_atom(s), n, arr)), STR)
    if name == 'split':
        sep = as_atom(args[0]) if args else VV.ATOMS.atom(' ')
        n = uf('split_len', I, I, I)(as_atom(s), sep)
        arr = uf('split_arr', I, I, z3.ArraySort(I, Val))(as_atom(s), sep)
        st.assume(n >= 1)
        j = z3.Int(fresh_name('j'))
        st.assume(z3.ForAll([j], Val.is_s(z3.Select(arr, j))))
        if st.spec:
            return spec_seq(ex, st, n, arr, STR)
        return st.new_list_sym(n, arr, STR)
    if name == 'format':
        raise Unsupported('str.format')
    raise Unsupported(f'str.{name}')


def load_extensions():
    import importlib
    import os
    d = os.path.join(os.path.dirname(os.path.abspath(__file__)), 'libext')
    if os.path.isdir(d):
        for fn in sorted(os.listdir(d)):
            if fn.endswith('.py') and not fn.startswith('_'):
                importlib.import_module('pyvc.libext.' + fn[:-3])


# load_extensions() is called at the end of pyvc/verify.py, once every core module is fully imported (extensions may
# import pyvc.verify / pyvc.symexec at module level)
