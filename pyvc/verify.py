"""Verify one function against its contract; discharge obligations with z3 (cvc5 fallback)."""
from __future__ import annotations

import ast
import os
import time
import traceback
from dataclasses import dataclass, field, asdict

import z3

from . import vals as VV
from .contract import Contract, Registry
from .lib import FMAX_AXIOMS
from .repo import Repo, get_repo
from .state import Fork, Raised, State, Unsupported
from .symexec import Ctx, Executor, Frame, Oblig, Outcome
from .vals import (ANY, T, V, Val, as_ref, fresh_val, type_invariant, v_ref, TRef)


@dataclass
class OblResult:
    name: str
    kind: str
    status: str            # discharged | failed | unknown | error
    backend: str
    seconds: float
    line: int = 0
    func: str = ''
    note: str = ''
    model: dict | None = None
    smt_size: int = 0


@dataclass
class FuncResult:
    qualname: str
    label: str
    file: str
    line: int
    sha: str
    status: str            # verified | failed | undecided | out-of-subset | missing | trusted
    obligations: list[OblResult] = field(default_factory=list)
    notes: list[str] = field(default_factory=list)
    error: str = ''
    paths: int = 0
    seconds: float = 0.0
    exec_seconds: float = 0.0


BACKGROUND: list = []


def background_axioms() -> list:
    return VV.ATOMS.axioms() + FMAX_AXIOMS + BACKGROUND


def decode_val(model, t, depth=0):
    """Python rendering of a Val term in a model (best effort)."""
    try:
        v = model.eval(t, model_completion=True)
    except z3.Z3Exception:
        return '?'
    if not z3.is_app(v):
        return str(v)
    d = v.decl().name()
    if d == 'none':
        return None
    if d == 'b':
        return z3.is_true(v.arg(0))
    if d == 'num':
        a = v.arg(0)
        if z3.is_rational_value(a):
            num, den = a.numerator_as_long(), a.denominator_as_long()
            return num if den == 1 else num / den
        if z3.is_algebraic_value(a):
            return float(a.approx(12).as_fraction())
        return str(a)
    if d == 's':
        a = v.arg(0)
        for lit, at in VV.ATOMS.table.items():
            try:
                if model.eval(at, model_completion=True).eq(a):
                    return lit
            except z3.Z3Exception:
                pass
        return f'<str#{a}>'
    if d == 'ref':
        return f'<ref#{v.arg(0)}>'
    if d == 'nil':
        return ()
    if d == 'tup' and depth < 8:
        return (decode_val(model, v.arg(0), depth + 1),) + tuple(decode_val(model, v.arg(1), depth + 1) or ())
    return str(v)


def _solver(ob: Oblig, timeout_ms: int, seed: int):
    s = z3.Solver()
    s.set('timeout', timeout_ms)
    if seed:
        s.set('random_seed', seed)
        s.set('smt.random_seed', seed)
    for a in background_axioms():
        s.add(a)
    for h in ob.hyps:
        s.add(h)
    s.add(z3.Not(ob.goal))
    return s


def discharge(ob: Oblig, timeout_ms: int, witness_terms: dict) -> OblResult:
    """Portfolio: short attempts with several seeds first (unstable quantifier queries are
    either proved within a second or not at all), then the full budget, then cvc5."""
    t0 = time.time()
    backend = f'z3-{z3.get_version_string()}'
    status = 'unknown'
    s = None
    schedule = [(min(2000, timeout_ms), 0), (min(2000, timeout_ms), 1), (min(2000, timeout_ms), 7),
                (min(3000, timeout_ms), 13), (timeout_ms, 0), (timeout_ms, 3)]
    tried_cvc5 = False
    try:
        for k, (tmo, seed) in enumerate(schedule):
            if k == 2 and not tried_cvc5:
                tried_cvc5 = True
                if try_cvc5(s, min(timeout_ms, 10000)) == 'unsat':
                    status, backend = 'discharged', 'cvc5-1.0.3'
                    break
            s = _solver(ob, tmo, seed)
            r = str(s.check())
            if r != 'unknown':
                status = {'unsat': 'discharged', 'sat': 'failed'}[r]
                if seed:
                    backend += f'(seed {seed})'
                break
    except z3.Z3Exception as e:   # pragma: no cover
        return OblResult(ob.name, ob.kind, 'error', 'z3', time.time() - t0, ob.line, ob.func, str(e))
    if status == 'unknown':
        c5 = try_cvc5(s, timeout_ms)
        if c5 == 'unsat':
            status, backend = 'discharged', 'cvc5-1.0.3'
    model = None
    note = ob.note
    if status == 'unknown':
        # refutation attempt: quantified hypotheses replaced by a finite instantiation.
        # unsat => proved from weaker hypotheses (sound); sat => candidate counter-model only.
        r2, s2 = ground_attempt(ob, min(timeout_ms, 10000))
        if r2 == 'unsat':
            status, backend = 'discharged', backend + '(ground-instantiated hyps)'
        elif r2 == 'sat':
            s = s2
            note = (note + ' ' if note else '') + 'solver: unknown (incomplete quantifiers); candidate model from ground instantiation'
    if status in ('failed', 'unknown'):
        try:
            m = s.model()
        except z3.Z3Exception:
            m = None
        if m is not None:
            model = {'_candidate_only': status == 'unknown'} if status == 'unknown' else {}
            for k, term in {**witness_terms, **ob.witness}.items():
                try:
                    if isinstance(term, tuple) and term[0] == 'list':
                        _, ref_t, st_heap = term
                        model[k] = decode_list(m, ref_t, st_heap)
                    else:
                        model[k] = decode_val(m, term)
                except Exception as e:     # pragma: no cover
                    model[k] = f'?{e}'
    size = 0
    try:
        dd = os.environ.get('PYVC_DUMP')
        if dd and (status != "discharged" or "cvc5" in backend):
            txt = s.to_smt2()
            size = len(txt)
            os.makedirs(dd, exist_ok=True)
            with open(os.path.join(dd, ob.name.replace(':', '_').replace('/', '_') + '.smt2'), 'w') as fh:
                fh.write(txt)
    except Exception:
        size = 0
    if not size:
        try:
            size = sum(len(h.sexpr()) for h in ob.hyps[-3:]) + len(ob.goal.sexpr())
        except Exception:
            size = 0
    return OblResult(ob.name, ob.kind, status, backend, round(time.time() - t0, 4), ob.line,
                     ob.func, note, model, size)


def has_quantifier(e) -> bool:
    seen = set()
    todo = [e]
    while todo:
        x = todo.pop()
        if x.get_id() in seen:
            continue
        seen.add(x.get_id())
        if z3.is_quantifier(x):
            return True
        todo.extend(x.children())
    return False


def int_consts(e, out: dict):
    seen = set()
    todo = [e]
    while todo:
        x = todo.pop()
        if x.get_id() in seen:
            continue
        seen.add(x.get_id())
        if z3.is_quantifier(x):
            continue
        if z3.is_const(x) and x.decl().kind() == z3.Z3_OP_UNINTERPRETED and z3.is_int(x):
            out[x.get_id()] = x
        todo.extend(x.children())


def ground_attempt(ob: Oblig, timeout_ms: int):
    goal_neg = z3.Not(ob.goal)
    terms: dict = {}
    int_consts(ob.goal, terms)
    for h in ob.hyps[-12:]:
        if not has_quantifier(h):
            int_consts(h, terms)
    cands = [z3.IntVal(0)] + [t for t in terms.values() if t.decl().name().startswith(('k!', 'q!', 'j!', 'idx!'))][:6]
    cands = cands + [c + 1 for c in cands[1:4]]
    s = z3.Solver()
    s.set('timeout', timeout_ms)
    for a in background_axioms():
        s.add(a)
    for h in ob.hyps:
        if not has_quantifier(h):
            s.add(h)
        elif z3.is_quantifier(h) and h.is_forall() and h.num_vars() == 1 and h.var_sort(0) == z3.IntSort():
            for c in cands:
                inst = z3.substitute_vars(h.body(), c)
                if not has_quantifier(inst):
                    s.add(inst)
    if has_quantifier(goal_neg):
        # the negated goal is existential after skolemisation by z3; keep it as it is
        pass
    s.add(goal_neg)
    try:
        return str(s.check()), s
    except z3.Z3Exception:
        return 'unknown', s


def decode_list(m, ref_t, heap):
    n = m.eval(z3.Select(heap['$len'], ref_t), model_completion=True)
    try:
        nn = min(n.as_long(), 8)
    except Exception:
        return '?'
    el = z3.Select(heap['$elems'], ref_t)
    return [decode_val(m, z3.Select(el, z3.IntVal(i))) for i in range(nn)]


def try_cvc5(solver: z3.Solver, timeout_ms: int) -> str:
    """Second opinion on a z3 `unknown`: export SMT-LIB2 and run /usr/bin/cvc5."""
    import subprocess
    import tempfile
    import os
    try:
        txt = solver.to_smt2()
    except Exception:
        return 'unknown'
    if 'lambda' in txt:
        return 'unknown'     # cvc5 1.0.3 needs HO mode for array lambdas; not attempted
    fd, path = tempfile.mkstemp(suffix='.smt2')
    try:
        with os.fdopen(fd, 'w') as f:
            f.write('(set-logic ALL)\n' + txt)
        r = subprocess.run(['/usr/bin/cvc5', f'--tlimit={timeout_ms}', path], capture_output=True,
                           text=True, timeout=timeout_ms / 1000 + 5)
        out = r.stdout.strip().splitlines()
        return out[0] if out else 'unknown'
    except Exception:
        return 'unknown'
    finally:
        try:
            os.unlink(path)
        except OSError:
            pass


# ---------------------------------------------------------------------------
def make_params(ex: Executor, st: State, fi, con: Contract) -> dict[str, V]:
    a = fi.node.args
    params = {}
    names = [x for x in a.posonlyargs + a.args + a.kwonlyargs]
    for x in names:
        nme = x.arg
        tsrc = con.types.get(nme)
        if nme == 'self' and fi.cls:
            cls = con.self_class or ex.repo.class_key(ex.repo.find_class(fi.cls, fi.module))
            ty = TRef(cls)
        elif tsrc is not None:
            ty = ex.ptype(tsrc)
        else:
            ty = ex.ptype(x.annotation)
        t = z3.Const(f'p!{nme}', Val)
        v = V(t, ty)
        for f in type_invariant(v):
            st.assume(f)
        if ty.kind in ('ref', 'list', 'dict', 'set'):
            st.assume(Val.rv(t) < st.alloc0)
            st.assume(Val.rv(t) >= 0)
        if ty.kind == 'opt' and ty.args[0].kind in ('ref', 'list', 'dict', 'set'):
            st.assume(z3.Or(t == Val.none, z3.And(Val.rv(t) < st.alloc0, Val.rv(t) >= 0)))
        if ty.kind == 'dict':
            st.assume_wf_dict(v)
        if nme == 'self' and fi.cls:
            cls = con.self_class or ex.repo.class_key(ex.repo.find_class(fi.cls, fi.module))
            r = Val.rv(t)
            if con.exact_self:
                st.assume(ex.cls_of(r) == ex.class_id(cls))
            else:
                ids = [ex.class_id(c.name) for c in ex.repo.subclasses(cls)]
                st.assume(z3.Or(*[ex.cls_of(r) == i for i in ids]))
        params[nme] = v
    if a.vararg is not None or a.kwarg is not None:
        raise Unsupported('*args/**kwargs in a function under contract')
    return params


def distinct_param_refs(st: State, params: dict[str, V]):
    """Parameters of container kind (list/dict/set) are pairwise distinct objects unless a
    contract says otherwise; object references may alias only if they share a class."""
    refs = [(n, v) for n, v in params.items() if v.kind in ('list', 'dict', 'set')]
    for i in range(len(refs)):
        for j in range(i + 1, len(refs)):
            st.assume(as_ref(refs[i][1]) != as_ref(refs[j][1]))


def finalize(res: FuncResult, con: Contract):
    sts = {o.status for o in res.obligations}
    if 'failed' in sts:
        res.status = 'failed'
    elif 'unknown' in sts or 'error' in sts:
        res.status = 'undecided'
    n_real = len([o for o in res.obligations if o.kind != 'vacuity'])
    if n_real < con.min_obligations and res.status == 'verified':
        res.status = 'undecided'
        res.error = f'only {n_real} obligations generated (< {con.min_obligations}): vacuous'


def verify_function(repo: Repo, registry: Registry, con: Contract, prop: str, specs: dict,
                    timeout_ms: int = 10000, defer: list | None = None) -> FuncResult:
    t0 = time.time()
    fi = repo.function(con.qualname)
    label = con.label or '.'.join(con.qualname.split('.')[1:])
    if con.self_class and not con.label:
        label = f'{label}@{con.self_class}'
    if fi is None:
        return FuncResult(con.qualname, label, '', 0, '', 'missing', error='function not found in /repo')
    res = FuncResult(con.qualname, label, fi.file, fi.node.lineno, fi.sha, 'verified')
    if not con.verify:
        res.status = 'trusted'
        return res
    ctx = Ctx(repo, registry, prop)
    ctx.fn_label = label
    ctx.check_safe = con.check_safe
    if not con.check_safe:
        ctx.note(f'ASSUMED (check_safe=False): implicit exceptions of {label} (None dereference, index / key errors, division by zero) '
                 f'are assumed not to occur, not proved')
    if not con.check_frame:
        ctx.note(f'NOT CHECKED (check_frame=False): the frame (what {label} leaves unchanged) is not an obligation')
    ctx.nla_uf = con.nla_uf
    ctx.specs = specs
    ex = Executor(ctx)
    st = State()
    fr = Frame(repo.modules[fi.module], fi, depth=0, contract=con)
    ex.frames.append(fr)
    witness: dict = {}
    try:
        params = make_params(ex, st, fi, con)
        distinct_param_refs(st, params)
        st.locals = dict(params)
        for lbl, src in con.requires.items():
            st.assume(ex.spec_bool(st, src, {}))
        st.heap0 = dict(st.heap)
        st.locals0 = dict(params)
        for n, v in params.items():
            witness[n] = v.t
        # vacuity: requires satisfiable
        s = z3.Solver()
        s.set('timeout', timeout_ms)
        for a in VV.ATOMS.axioms() + FMAX_AXIOMS:
            s.add(a)
        s.add(*st.pc)
        r = s.check()
        # vacuity: a contradictory precondition (unsat) fails; `unknown` (quantified requires:
        # no model construction) means no contradiction was derivable within the budget
        pre_ob = OblResult(f'{prop}:{label}:vacuity:requires-satisfiable', 'vacuity',
                           'failed' if str(r) == 'unsat' else 'discharged',
                           f'z3-{z3.get_version_string()}' + ('' if str(r) == 'sat' else '(no contradiction derivable)'),
                           0.0, fi.node.lineno, label)
        outs = ex.exec_block(st, strip_docstring(fi.node.body))
        res.paths = len(outs)
        heap0 = st.heap0
        for o in outs:
            ost = o.st
            saved = (ost.heap0, ost.locals0)
            # heap0 may have grown (fields first read later): share
            if o.kind in ('normal', 'return'):
                val = o.val if o.val is not None else VV.v_none()
                env = {'result': val}
                if val.kind == 'any' or True:
                    rt = ex.ptype(con.returns) if con.returns else ex.ptype(fi.node.returns)
                    if val.kind == 'any' and rt.kind != 'any':
                        env['result'] = val.with_ty(rt)
                for hsrc in con.hints:
                    try:
                        ex.spec_eval(ost, hsrc, {})
                    except (Unsupported, KeyError):
                        pass
                saved_locals = ost.locals
                ost.locals = dict(params)   # postconditions see the parameters (entry values)
                for lbl, src in con.ensures.items():
                    ex.spec_goal(ost, 'post', lbl, src, env, line=o.line or fi.node.lineno,
                                 witness={'result': env['result'].t} if env['result'].t is not None else {})
                for exc, csrc in con.raises.items():
                    ost.use_old += 1
                    try:
                        c = ex.spec_bool(ost, csrc, {})
                    finally:
                        ost.use_old -= 1
                    ctx.add_oblig(ost, 'raises', f'no-{exc}-means-not-cond', z3.Not(c), line=o.line)
                ost.locals = saved_locals
                if con.check_frame:
                    frame_obligations(ex, ctx, ost, con, params)
            elif o.kind == 'raise':
                if o.exc in con.may_raise:
                    continue
                if o.exc in con.raises:
                    saved_locals = ost.locals
                    ost.locals = dict(params)
                    ost.use_old += 1
                    try:
                        c = ex.spec_bool(ost, con.raises[o.exc], {})
                    finally:
                        ost.use_old -= 1
                        ost.locals = saved_locals
                    ctx.add_oblig(ost, 'raises', f'{o.exc}-only-if-cond', c, line=o.line)
                else:
                    ctx.add_oblig(ost, 'raises', f'unexpected-{o.exc}', z3.BoolVal(False), line=o.line,
                                  note=f'path raising {o.exc} must be infeasible')
            else:
                raise Unsupported(f'{o.kind} escaping the function body')
        res.notes = list(ctx.notes)
        res.obligations.append(pre_ob)
        for n, v in params.items():
            if v.kind in ('ref', 'opt', 'any'):
                for f, arr in st.heap0.items():
                    if not f.startswith('$'):
                        witness[f'{n}.{f}'] = z3.Select(arr, Val.rv(v.t))
            if v.kind == 'list':
                witness[f'{n}[]'] = ('list', Val.rv(v.t), st.heap0)
        closure = heap_closure(st)
        res.exec_seconds = round(time.time() - t0, 3)
        for ob in ctx.obligs:
            ob.hyps = closure + ob.hyps
        if defer is not None:
            defer.append((res, list(ctx.obligs), witness))
            res.seconds = round(time.time() - t0, 3)
            return res
        for ob in ctx.obligs:
            res.obligations.append(discharge(ob, timeout_ms, witness))
    except Unsupported as e:
        res.status = 'out-of-subset'
        res.error = str(e)
        if os.environ.get('PYVC_TRACE'):
            res.error += '\n' + traceback.format_exc(limit=30)
        res.notes = list(ctx.notes)
        res.seconds = round(time.time() - t0, 3)
        return res
    except Exception as e:      # executor bug: checker crash, never a violation
        res.status = 'error'
        res.error = f'{type(e).__name__}: {e}\n' + traceback.format_exc()[-2500:]
        res.seconds = round(time.time() - t0, 3)
        return res
    finally:
        ex.frames.pop()
    finalize(res, con)
    res.seconds = round(time.time() - t0, 3)
    return res


def heap_closure(st: State) -> list:
    """Well-formedness of the entry heap: every reference stored in a pre-existing object
    denotes a pre-existing object (0 <= ref < alloc0)."""
    out = []
    r = z3.Int('hc!r')
    i = z3.Int('hc!i')
    x = z3.Const('hc!x', Val)
    a0 = st.alloc0

    def ok(t):
        return z3.Implies(Val.is_ref(t), z3.And(Val.rv(t) >= 0, Val.rv(t) < a0))
    for f, arr in st.heap0.items():
        if f == '$elems':
            out.append(z3.ForAll([r, i], ok(z3.Select(z3.Select(arr, r), i))))
        elif f == '$map':
            out.append(z3.ForAll([r, x], ok(z3.Select(z3.Select(arr, r), x))))
        elif f.startswith('$'):
            continue
        else:
            out.append(z3.ForAll([r], ok(z3.Select(arr, r))))
    return out


def strip_docstring(body):
    if body and isinstance(body[0], ast.Expr) and isinstance(body[0].value, ast.Constant) and isinstance(body[0].value.value, str):
        return body[1:]
    return body


def frame_obligations(ex: Executor, ctx: Ctx, st: State, con: Contract, params):
    """Every pre-existing location not named in `modifies` is unchanged."""
    allowed_fields: dict[str, list] = {}
    wild = set()
    saved_locals = st.locals
    st.locals = dict(params)
    try:
        for loc in con.modifies:
            if loc.startswith('*.'):
                wild.add(loc[2:])
                continue
            node = ast.parse(loc, mode='eval').body
            st.use_old += 1
            try:
                obj = ex.spec_eval(st, node.value, {})
            finally:
                st.use_old -= 1
            allowed_fields.setdefault(node.attr, []).append(as_ref(obj))
    finally:
        st.locals = saved_locals
    for f, arr in st.heap.items():
        a0 = st.heap0.get(f)
        if a0 is None:
            # never seen at entry: the entry content is the pristine array (same name as State.field creates)
            a0 = z3.Const(f'H0!{f}', arr.sort())
        if arr.eq(a0) or f in wild:
            continue
        r = z3.Int(VV.fresh_name('fr'))
        excl = [r != x for x in allowed_fields.get(f, [])]
        # internal container fields of objects allocated by this call are free to change
        goal = z3.ForAll([r], z3.Implies(z3.And(r >= 0, r < st.alloc0, *excl),
                                         z3.Select(arr, r) == z3.Select(a0, r)))
        ctx.add_oblig(st, 'frame', f.replace('$', '_'), goal)


# extensions are loaded last: they may import any core module at module level
from . import lib as _lib_for_extensions      # noqa: E402
_lib_for_extensions.load_extensions()
