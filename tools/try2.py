import sys, importlib, time
sys.path.insert(0, '/verif')
from pyvc.repo import get_repo
from pyvc.contract import REGISTRY
import pyvc.verify as VF
mods = sys.argv[1].split(',')
for m in mods:
    importlib.import_module('contracts.' + m)
repo = get_repo()
only = sys.argv[2]
tmo = int(sys.argv[3]) if len(sys.argv) > 3 else 5000
orig = VF.discharge
def dis(ob, t, w):
    t0 = time.time()
    r = orig(ob, t, w)
    print('   ', r.status, r.name, 'L%d'%r.line, r.backend, round(time.time()-t0, 2), flush=True)
    return r
VF.discharge = dis
from pyvc import specs_runtime
for key, con in REGISTRY.contracts.items():
    if only not in key: continue
    t0 = time.time()
    r = VF.verify_function(repo, REGISTRY, con, con.props[0], specs_runtime.load_specs(), tmo)
    print('==', key, r.status, r.error[:3000], f'paths={r.paths} {r.seconds}s exec={r.exec_seconds}s nobl={len(r.obligations)} solver={sum(o.seconds for o in r.obligations):.1f}s')
    for o in r.obligations:
        if o.status == 'failed': print('  FAILED', o.name, o.model)
