"""Runs the repository test suite (guard off) and compares with /root/.vp/BASELINE.json stable_pass."""
import json, subprocess, sys, tempfile, os, xml.etree.ElementTree as ET
base = json.load(open('/root/.vp/BASELINE.json'))
fd, path = tempfile.mkstemp(suffix='.xml'); os.close(fd)
cmd = f'cd /repo && /venv/bin/python -m pytest -ra -q -p no:cacheprovider --timeout=900 --continue-on-collection-errors --junitxml={path}'
r = subprocess.run(cmd, shell=True, capture_output=True, text=True)
passed = set()
for tc in ET.parse(path).getroot().iter('testcase'):
    ok = not any(c.tag in ('failure', 'error', 'skipped') for c in tc)
    if ok:
        passed.add(f"{tc.get('classname')}::{tc.get('name')}")
os.unlink(path)
stable = set(base['stable_pass'])
missing = sorted(stable - passed)
print('stable_pass', len(stable), 'passed now', len(passed), 'missing', len(missing))
for m in missing[:20]: print('  MISSING', m)
print(r.stdout.strip().splitlines()[-1])
sys.exit(1 if missing else 0)
