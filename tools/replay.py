"""Replay of a counter-model on the real code.  Run under /venv/bin/python, fresh process.

usage: replay.py <replay.json>
exit 10: violation reproduced on /repo; 11: not reproduced; 12: no replay code / error.
The JSON carries `model` (the solver's counter-model, decoded) and `replay_code`, a
snippet from the sidecar contract that builds real inputs from the model, runs the real
function and sets `violated` (bool) and optionally `detail`.
"""
import json
import math
import os
import sys
import tempfile
import traceback


def num(x, default=0.0):
    if isinstance(x, bool):
        return float(x)
    if isinstance(x, (int, float)):
        return float(x)
    return default


def integer(x, default=0):
    if isinstance(x, bool):
        return int(x)
    if isinstance(x, (int, float)) and float(x) == int(x):
        return int(x)
    return default


def main():
    path = sys.argv[1]
    with open(path) as f:
        payload = json.load(f)
    code = payload.get('replay_code')
    if not code:
        print('no replay code for this obligation')
        return 12
    m = payload.get('model') or {}
    work = tempfile.mkdtemp(prefix='verif-replay-')
    os.chdir(work)
    env = {'m': m, 'num': num, 'integer': integer, 'math': math, 'payload': payload,
           'violated': None, 'detail': ''}
    try:
        exec(compile(code, '<replay>', 'exec'), env)
    except Exception:
        traceback.print_exc()
        print('replay raised')
        return 12
    finally:
        import shutil
        os.chdir('/')
        shutil.rmtree(work, ignore_errors=True)
    print('detail:', env.get('detail'))
    if env.get('violated') is True:
        print('REPRODUCED on the real code')
        return 10
    print('not reproduced')
    return 11


if __name__ == '__main__':
    sys.exit(main())
