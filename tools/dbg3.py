import sys, importlib, time
sys.path.insert(0, '/verif')
import z3
from pyvc.repo import get_repo
from pyvc.contract import REGISTRY
import pyvc.verify as VF
for m in sys.argv[1].split(','):
    importlib.import_module('contracts.' + m)
repo = get_repo()
only = sys.argv[2]; target = sys.argv[3]
def dis(ob, t, w):
    if target in ob.name:
        t0=time.time()
        r, s = VF.ground_attempt(ob, 20000)
        print('ground', r, time.time()-t0, s.reason_unknown() if r=='unknown' else '')
        print(len(s.assertions()))
        if r == 'sat':
            m = s.model()
            for k, term in w.items():
                if not isinstance(term, tuple): print(k, VF.decode_val(m, term))
        sys.exit(0)
    return VF.OblResult(ob.name, ob.kind, 'discharged', 'skip', 0)
VF.discharge = dis
from pyvc import specs_runtime
for key, con in REGISTRY.contracts.items():
    if only not in key: continue
    r = VF.verify_function(repo, REGISTRY, con, con.props[0], specs_runtime.load_specs(), 2000)
    print(r.status, r.error)
