"""find which quantified hypotheses make an obligation slow: start from the quantifier-free
hyps (+goal) and add quantified ones one at a time, timing each."""
import sys, importlib, time
sys.path.insert(0, '/verif')
import z3
from pyvc.repo import get_repo
from pyvc.contract import REGISTRY
import pyvc.verify as VF
for m in sys.argv[1].split(','):
    importlib.import_module('contracts.' + m)
repo = get_repo()
only = sys.argv[2]; target = sys.argv[3]
def solve(hyps, goal, tmo=3000):
    s = z3.Solver(); s.set('timeout', tmo)
    for a in VF.background_axioms(): s.add(a)
    s.add(*hyps); s.add(z3.Not(goal))
    t0=time.time(); r = s.check(); return str(r), round(time.time()-t0,2)
def dis(ob, t, w):
    if target in ob.name:
        qf = [h for h in ob.hyps if not VF.has_quantifier(h)]
        qs = [h for h in ob.hyps if VF.has_quantifier(h)]
        print('OBLIG', ob.name, 'hyps', len(ob.hyps), 'quantified', len(qs))
        print('qf only:', solve(qf, ob.goal))
        for i, q in enumerate(qs):
            r = solve(qf + [q], ob.goal, 2000)
            flag = '  <<<' if r[1] > 1.0 or r[0] == 'unsat' else ''
            print(i, r, q.sexpr().replace('\n', ' ')[:260], flag)
        sys.exit(0)
    return VF.OblResult(ob.name, ob.kind, 'discharged', 'skip', 0)
VF.discharge = dis
from pyvc import specs_runtime
for key, con in REGISTRY.contracts.items():
    if only not in key: continue
    r = VF.verify_function(repo, REGISTRY, con, con.props[0], specs_runtime.load_specs(), 2000)
    print(r.status, r.error)
