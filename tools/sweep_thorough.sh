#!/bin/sh
# runs the thorough tier of the given properties (default: all claimed) and prints one line per property;
# evidence files are restored afterwards from git (the committed evidence describes the quick tier on the unchanged tree)
cd /verif
PROPS=${@:-$(python3 -c "import json;print(' '.join(c['property_id'] for c in json.load(open('MANIFEST.json'))['checks']))")}
for p in $PROPS; do
  t0=$(date +%s)
  ./check $p --tier thorough > /tmp/thorough_$p.txt 2>&1; rc=$?
  t1=$(date +%s)
  echo "$p exit=$rc $((t1-t0))s $(grep -c '^VIOLATION' /tmp/thorough_$p.txt) violations; $(grep 'obligations discharged' /tmp/thorough_$p.txt | cut -c1-150)"
done
