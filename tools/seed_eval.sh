#!/bin/sh
# usage: tools/seed_eval.sh Cxx   -- evaluates the independently seeded change /tmp/seed_Cxx_out against ./check Cxx
# (runs the check on the agent's worktree /tmp/seed_Cxx through VERIF_REPO; /repo itself is not touched)
ID=$1
OUT=/tmp/seed_${ID}_out
WT=/tmp/seed_${ID}
DST=/verif/seeded/${ID}
set -e
test -f $OUT/patch.diff && test -f $OUT/demo.py && test -f $OUT/meta.json
git -C /repo apply --check $OUT/patch.diff && echo "patch applies on /repo HEAD"
set +e
echo "--- demo on /repo:"; (cd /tmp && PYTHONPATH=/repo/src timeout 600 /venv/bin/python $OUT/demo.py >/tmp/seed_demo_repo.txt 2>&1; echo "exit=$?" >> /tmp/seed_demo_repo.txt; tail -3 /tmp/seed_demo_repo.txt)
echo "--- demo on the changed tree:"; (cd /tmp && PYTHONPATH=$WT/src timeout 600 /venv/bin/python $OUT/demo.py >/tmp/seed_demo_wt.txt 2>&1; echo "exit=$?" >> /tmp/seed_demo_wt.txt; tail -3 /tmp/seed_demo_wt.txt)
mkdir -p $DST
cp $OUT/patch.diff $OUT/demo.py $OUT/meta.json $DST/
cp /verif/evidence/${ID}.json /tmp/seed_evidence_backup.json
echo "--- ./check $ID on the changed tree:"
set +e
(cd /verif && VERIF_REPO=$WT ./check $ID > $DST/check_output.txt 2>&1; echo "exit=$?" >> $DST/check_output.txt)
cp /tmp/seed_evidence_backup.json /verif/evidence/${ID}.json
grep -c "^VIOLATION" $DST/check_output.txt
grep "^VIOLATION\|^UNDECIDED\|exit=\|obligations discharged" $DST/check_output.txt | cut -c1-220 | head -12
