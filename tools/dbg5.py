import sys, importlib, time
sys.path.insert(0, '/verif')
import z3
from pyvc.repo import get_repo
from pyvc.contract import REGISTRY
import pyvc.verify as VF
for m in sys.argv[1].split(','):
    importlib.import_module('contracts.' + m)
repo = get_repo()
only = sys.argv[2]; target = sys.argv[3]
def dis(ob, t, w):
    if target in ob.name:
        qf = [h for h in ob.hyps if not VF.has_quantifier(h)]
        s = z3.Solver(); s.add(*VF.background_axioms()); s.add(*qf); s.add(z3.Not(ob.goal))
        print(s.check())
        m = s.model()
        # evaluate each conjunct-ish atom of the goal
        g = ob.goal
        def atoms(e, out, depth=0):
            if z3.is_app(e) and e.decl().kind() in (z3.Z3_OP_AND, z3.Z3_OP_OR, z3.Z3_OP_NOT, z3.Z3_OP_IMPLIES) and depth < 6:
                for c in e.children(): atoms(c, out, depth+1)
            else:
                out.append(e)
        out=[]; atoms(g, out)
        for a in out:
            print(m.eval(a, model_completion=True), '<=', a.sexpr().replace('\n',' ')[:300])
        print('--- qf hyps that mention truthy:')
        for h in qf:
            t_ = h.sexpr().replace('\n',' ')
            if 'truthy' in t_ or 'save_iterations' in t_ or 'bestIteration' in t_:
                print(m.eval(h, model_completion=True), '<=', t_[-400:])
        sys.exit(0)
    return VF.OblResult(ob.name, ob.kind, 'discharged', 'skip', 0)
VF.discharge = dis
from pyvc import specs_runtime
for key, con in REGISTRY.contracts.items():
    if only not in key: continue
    r = VF.verify_function(repo, REGISTRY, con, con.props[0], specs_runtime.load_specs(), 2000)
    print(r.status, r.error)
