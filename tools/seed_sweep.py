"""Re-evaluates every seeded change of /verif/seeded against the CURRENT /repo HEAD (patch applied in a scratch worktree under
/tmp, checked through VERIF_REPO; same result as `git -C /repo apply seeded/Cxx/patch.diff ; ./check Cxx ; git -C /repo checkout -- .`)
and records the outcome in seeded/Cxx/meta.json (`check`) and seeded/Cxx/check_output.txt.
The evidence file of the property is restored afterwards (evidence must describe the unchanged tree).
usage: python3 tools/seed_sweep.py [--dir seeded2] [Cxx ...]
"""
import json
import os
import shutil
import subprocess
import sys

V = '/verif'
SUB = 'seeded'
args = sys.argv[1:]
if args and args[0] == '--dir':
    SUB = args[1]
    args = args[2:]
ids = args or [f'C{i:02d}' for i in range(1, 21)]
WT = '/tmp/seed_sweep_wt'
for pid in ids:
    d = f'{V}/{SUB}/{pid}'
    patch = f'{d}/patch.diff'
    if not os.path.exists(patch):
        print(pid, 'no patch')
        continue
    if subprocess.run(['git', '-C', '/repo', 'apply', '--check', patch]).returncode != 0:
        print(pid, 'PATCH DOES NOT APPLY on /repo HEAD')
        continue
    ev = f'{V}/evidence/{pid}.json'
    bak = f'/tmp/seed_sweep_{pid}.evidence'
    shutil.copy(ev, bak)
    # a scratch worktree of /repo HEAD with the patch applied (the working tree of /repo itself is not touched, so checks
    # running concurrently are not disturbed); `git -C /repo apply <patch>; ./check; git -C /repo checkout -- .` is equivalent
    subprocess.run(['git', '-C', '/repo', 'worktree', 'remove', '--force', WT], capture_output=True)
    subprocess.run(['git', '-C', '/repo', 'worktree', 'add', '--detach', '-q', WT, 'HEAD'], check=True)
    try:
        subprocess.run(['git', '-C', WT, 'apply', patch], check=True)
        r = subprocess.run(['./check', pid], cwd=V, capture_output=True, text=True, env=dict(os.environ, VERIF_REPO=WT))
    finally:
        subprocess.run(['git', '-C', '/repo', 'worktree', 'remove', '--force', WT], capture_output=True)
        subprocess.run(['git', '-C', '/repo', 'worktree', 'prune'], capture_output=True)
        shutil.copy(bak, ev)
        os.unlink(bak)
    out = r.stdout + r.stderr + f'exit={r.returncode}\n'
    open(f'{d}/check_output.txt', 'w').write(out)
    lines = [l.strip() for l in out.splitlines() if l.startswith('VIOLATION')]
    m = json.load(open(f'{d}/meta.json'))
    old = m.get('check') or {}
    chk = {'command': f'git -C /repo apply {SUB}/{pid}/patch.diff; ./check {pid}; git -C /repo checkout -- .   (run by tools/seed_sweep.py on a scratch worktree of /repo HEAD through VERIF_REPO)',
           'exit': r.returncode, 'caught': r.returncode == 1 and bool(lines), 'violation_lines': lines}
    for k in ('note', 'first_evaluation'):
        if k in old:
            chk[k] = old[k]
    m['check'] = chk
    m.setdefault('confirmed', {})['patch_applies_on_repo_head'] = True
    json.dump(m, open(f'{d}/meta.json', 'w'), indent=1)
    print(pid, 'exit', r.returncode, 'caught' if chk['caught'] else 'NOT CAUGHT', len(lines), 'violation lines', flush=True)
