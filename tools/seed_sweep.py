"""Re-evaluates every seeded change of /verif/seeded on the CURRENT /repo, the way the brief prescribes:
    git -C /repo apply seeded/Cxx/patch.diff ; ./check Cxx ; git -C /repo checkout -- .
and records the outcome in seeded/Cxx/meta.json (`check`) and seeded/Cxx/check_output.txt.
The evidence file of the property is restored afterwards (evidence must describe the unchanged tree).
usage: python3 tools/seed_sweep.py [Cxx ...]
"""
import json
import os
import shutil
import subprocess
import sys

V = '/verif'
ids = sys.argv[1:] or [f'C{i:02d}' for i in range(1, 21)]
dirty = subprocess.run(['git', '-C', '/repo', 'status', '--porcelain', '--untracked-files=no'], capture_output=True, text=True).stdout.strip()
if dirty:
    sys.exit('the working tree of /repo is not clean:\n' + dirty)
for pid in ids:
    d = f'{V}/seeded/{pid}'
    patch = f'{d}/patch.diff'
    if not os.path.exists(patch):
        print(pid, 'no patch')
        continue
    if subprocess.run(['git', '-C', '/repo', 'apply', '--check', patch]).returncode != 0:
        print(pid, 'PATCH DOES NOT APPLY')
        continue
    ev = f'{V}/evidence/{pid}.json'
    bak = f'/tmp/seed_sweep_{pid}.evidence'
    shutil.copy(ev, bak)
    subprocess.run(['git', '-C', '/repo', 'apply', patch], check=True)
    try:
        r = subprocess.run(['./check', pid], cwd=V, capture_output=True, text=True)
    finally:
        subprocess.run(['git', '-C', '/repo', 'checkout', '--', '.'], check=True)
        shutil.copy(bak, ev)
        os.unlink(bak)
    out = r.stdout + r.stderr + f'exit={r.returncode}\n'
    open(f'{d}/check_output.txt', 'w').write(out)
    lines = [l.strip() for l in out.splitlines() if l.startswith('VIOLATION')]
    m = json.load(open(f'{d}/meta.json'))
    old = m.get('check') or {}
    chk = {'command': f'git -C /repo apply seeded/{pid}/patch.diff; ./check {pid}; git -C /repo checkout -- .',
           'exit': r.returncode, 'caught': r.returncode == 1 and bool(lines), 'violation_lines': lines}
    for k in ('note', 'first_evaluation'):
        if k in old:
            chk[k] = old[k]
    if old and not old.get('caught') and 'first_evaluation' not in chk:
        chk['first_evaluation'] = 'missed by the check as it stood when the change was produced; the check was strengthened afterwards (DESIGN.md 0.5)'
    m['check'] = chk
    m.setdefault('confirmed', {})['patch_applies_on_repo_head'] = True
    json.dump(m, open(f'{d}/meta.json', 'w'), indent=1)
    print(pid, 'exit', r.returncode, 'caught' if chk['caught'] else 'NOT CAUGHT', len(lines), 'violation lines', flush=True)
