import sys, importlib, time
sys.path.insert(0, '/verif')
import z3
from pyvc.repo import get_repo
from pyvc.contract import REGISTRY
import pyvc.verify as VF
mods = sys.argv[1].split(',')
for m in mods:
    importlib.import_module('contracts.' + m)
repo = get_repo()
only = sys.argv[2]; target = sys.argv[3]
def solve(hyps, goal, tmo=4000):
    s = z3.Solver(); s.set('timeout', tmo)
    for a in VF.background_axioms(): s.add(a)
    s.add(*hyps); s.add(z3.Not(goal))
    t0=time.time(); r = s.check(); return str(r), round(time.time()-t0,2)
def dis(ob, t, w):
    if target in ob.name:
        print('OBLIG', ob.name, 'hyps', len(ob.hyps))
        print('full', solve(ob.hyps, ob.goal))
        # greedy: drop quantified hyps one by one if the result stays/gets unsat
        hyps = list(ob.hyps)
        i = 0
        while i < len(hyps):
            trial = hyps[:i] + hyps[i+1:]
            r, t_ = solve(trial, ob.goal, 3000)
            if r == 'unsat':
                hyps = trial
                print('dropped one -> unsat in', t_, 'remaining', len(hyps), flush=True)
            else:
                i += 1
        print('MINIMAL CORE size', len(hyps))
        for h in hyps: print('  ', h.sexpr().replace('\n',' ')[:1200])
        sys.exit(0)
    return VF.OblResult(ob.name, ob.kind, 'discharged', 'skip', 0)
VF.discharge = dis
from pyvc import specs_runtime
for key, con in REGISTRY.contracts.items():
    if only not in key: continue
    r = VF.verify_function(repo, REGISTRY, con, con.props[0], specs_runtime.load_specs(), 2000)
    print(r.status, r.error)
