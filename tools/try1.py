import sys, importlib
sys.path.insert(0, '/verif')
from pyvc.repo import get_repo
from pyvc.contract import REGISTRY
from pyvc.verify import verify_function
mods = sys.argv[1].split(',')
for m in mods:
    importlib.import_module('contracts.' + m)
repo = get_repo()
only = sys.argv[2] if len(sys.argv) > 2 else None
for key, con in REGISTRY.contracts.items():
    if only and only not in key: continue
    r = verify_function(repo, REGISTRY, con, con.props[0], {})
    print('==', key, r.status, r.error[:2000], f'paths={r.paths} {r.seconds}s')
    for o in r.obligations:
        print('   ', o.status, o.name, o.backend, o.seconds, o.model if o.status == 'failed' else '')
    for n in r.notes: print('    note:', n)
