#!/bin/sh
# runs every quick check N times (default 3) on the unchanged /repo and reports every run that does not exit 0 (flaky obligations)
cd /verif
N=${1:-3}
for r in $(seq 1 $N); do
  for p in $(python3 -c "import json;print(' '.join(c['property_id'] for c in json.load(open('MANIFEST.json'))['checks']))"); do
    ./check $p > /tmp/stab_$p.txt 2>&1; rc=$?
    if [ $rc -ne 0 ]; then echo "round $r $p exit=$rc"; grep "^UNDECIDED\|^VIOLATION\|CRASH" /tmp/stab_$p.txt | head -5 | cut -c1-220; fi
  done
  echo "round $r done"
done
