"""Generates MANIFEST.json from props/*.py (claimed) and the N/A table below."""
import importlib, json, os, sys
V = os.path.dirname(os.path.dirname(os.path.abspath(__file__)))
sys.path.insert(0, V)
props = [json.loads(l) for l in open(os.path.join(V, 'properties.jsonl'))]
ids = [p['id'] for p in props]
checks, na = [], []
for pid in ids:
    path = os.path.join(V, 'props', pid + '.py')
    if not os.path.exists(path) or not os.path.exists(os.path.join(V, 'baseline', pid + '.json')):
        na.append({'property_id': pid, 'reason': 'not yet built in this round: no contract check is registered for it (see DESIGN.md section 3 for the plan)'})
        continue
    pm = importlib.import_module('props.' + pid)
    if getattr(pm, 'NOT_APPLICABLE', None):
        na.append({'property_id': pid, 'reason': pm.NOT_APPLICABLE})
        continue
    checks.append({
        'property_id': pid,
        'quick_cmd': f'./check {pid} --tier quick',
        'thorough_cmd': f'./check {pid} --tier thorough',
        'evidence_file': f'/verif/evidence/{pid}.json',
        'replay_cmd_template': f'./check {pid} --replay {{path}}',
        'engine': 'pyvc',
        'level_claimed': {'category': pm.LEVEL, 'text': pm.LEVEL_TEXT, 'design_ref': pm.DESIGN_REF},
        'level_note': pm.LEVEL_NOTE,
        'technique': pm.TECHNIQUE,
    })
man = {
    'version': 1,
    'setup_cmd': './setup.sh',
    'hooks': {'guard': 'BIOGEME_VERIF', 'enable': 'no hook is needed: contracts live in sidecar files under /verif/contracts and the verifier reads /repo/src as text; the guard name is reserved and unused',
              'baseline_off_cmd': 'cd /repo && /venv/bin/python -m pytest -ra -q -p no:cacheprovider --timeout=900 --continue-on-collection-errors',
              'source_commits': [], 'add_only': True},
    'engines': [{'name': 'pyvc', 'path': '/verif/pyvc', 'serves_properties': [c['property_id'] for c in checks],
                 'kind_free_text': 'verification-condition generator over the real Python AST (symbolic executor with contracts, loop invariants, frames), discharged by z3 5.1 with cvc5 as second solver; static AST obligations; Lean 4 lemmas over spec functions; bounded stand-ins run on the real code under /venv/bin/python'}],
    'checks': checks,
    'not_applicable': na,
    'notes': 'Exit codes of ./check: 0 held / 1 violation (VIOLATION line) / 2 undecided / 3 checker crash. Known findings: /verif/known_findings.json.',
}
json.dump(man, open(os.path.join(V, 'MANIFEST.json'), 'w'), indent=1)
print('claimed', [c['property_id'] for c in checks], 'n/a', len(na))
