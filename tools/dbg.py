import sys, importlib, time
sys.path.insert(0, '/verif')
import z3
from pyvc.repo import get_repo
from pyvc.contract import REGISTRY
import pyvc.verify as VF
mods = sys.argv[1].split(',')
for m in mods:
    importlib.import_module('contracts.' + m)
repo = get_repo()
only = sys.argv[2]; target = sys.argv[3]
orig = VF.discharge
def dis(ob, t, w):
    if target in ob.name:
        print('OBLIG', ob.name, 'hyps', len(ob.hyps))
        for i, h in enumerate(ob.hyps):
            txt = h.sexpr().replace('\n', ' ')
            print(f'[{i}]', txt[:600])
        print('GOAL', ob.goal.sexpr()[:3000])
        s = z3.Solver(); s.set('timeout', 20000)
        for a in VF.background_axioms(): s.add(a)
        s.add(*ob.hyps)
        t0=time.time(); print('hyps consistent?', s.check(), time.time()-t0)
        sys.exit(0)
    return VF.OblResult(ob.name, ob.kind, 'discharged', 'skip', 0)
VF.discharge = dis
from pyvc import specs_runtime
for key, con in REGISTRY.contracts.items():
    if only not in key: continue
    r = VF.verify_function(repo, REGISTRY, con, con.props[0], specs_runtime.load_specs(), 2000)
    print(r.status, r.error)
