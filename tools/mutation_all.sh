#!/bin/sh
# mutation self-test of the deductive part of the given properties (default: all), sequentially; results in mutation/Cxx.json
cd /verif
for p in ${@:-C01 C02 C03 C04 C05 C07 C08 C09 C10 C11 C12 C13 C14 C15 C16 C17 C18 C19}; do
  python3-vt tools/mutation_selftest.py $p --max ${MUT_MAX:-5} --jobs ${MUT_JOBS:-8} --timeout-ms ${MUT_TIMEOUT:-6000} > /tmp/mut_$p.out 2>&1
  tail -n +2 /tmp/mut_$p.out
done
