"""Mutation self-test of the deductive part of one property.

For every function under a VERIFIED contract of property Cxx, small syntactic mutants of the function body are written
into scratch copies of /repo/src (under /tmp, removed at the end), and the obligations of that function are
re-generated from the mutated AST and discharged.  A mutant is

    killed      some obligation that is discharged on the unchanged function now FAILS (counter-model);
    flagged     ... is now `unknown` (./check reports it: replay, or the baseline + source-hash rule);
    undecided   obligations are no longer generated, or the function left the verifier's subset (exit 2 of ./check,
                never a violation);
    survived    every obligation is still discharged: the contract does not notice the mutant.  Survivors are either
                equivalent mutants (the change cannot be observed), a contract weaker than the code, or - worst - an
                unsound proof.  They are listed for review.

This is the "deliberately broken body" test of the brief made systematic; it never touches /repo, the evidence or the
baselines.  Mutation operators: comparison flip / boundary, arithmetic operator swap, and/or swap, negation removal,
small integer constant +1, True/False swap, statement deletion (assignment, augmented assignment, expression call,
raise, return value -> None), `is None` <-> `is not None`.  Text of messages (f-strings, arguments of exceptions,
logger / warnings calls) and docstrings are not mutated.

usage: python3-vt tools/mutation_selftest.py Cxx [--max N] [--jobs 16] [--seed 0] [--only substr] [--timeout-ms 8000]
writes /verif/mutation/Cxx.json
"""
import argparse
import ast
import copy
import json
import os
import random
import shutil
import subprocess
import sys
import tempfile
import time

VERIF = os.path.dirname(os.path.dirname(os.path.abspath(__file__)))
sys.path.insert(0, VERIF)

CMP_SWAPS = {ast.Lt: [ast.LtE, ast.GtE], ast.LtE: [ast.Lt, ast.Gt], ast.Gt: [ast.GtE, ast.LtE], ast.GtE: [ast.Gt, ast.Lt],
             ast.Eq: [ast.NotEq], ast.NotEq: [ast.Eq], ast.Is: [ast.IsNot], ast.IsNot: [ast.Is],
             ast.In: [ast.NotIn], ast.NotIn: [ast.In]}
BIN_SWAPS = {ast.Add: [ast.Sub], ast.Sub: [ast.Add], ast.Mult: [ast.Div], ast.Div: [ast.Mult], ast.Mod: [ast.FloorDiv],
             ast.FloorDiv: [ast.Mod], ast.Pow: [ast.Mult]}


def is_message_context(node, parents):
    """True for nodes whose value is only text shown to a human."""
    p = parents.get(id(node))
    while p is not None:
        if isinstance(p, ast.JoinedStr):
            return True
        if isinstance(p, ast.Raise):
            return True
        if isinstance(p, ast.Call):
            f = ast.unparse(p.func)
            if f.startswith(('logger.', 'logging.', 'warnings.')) or f in ('print',):
                return True
        if isinstance(p, (ast.Assign, ast.AnnAssign)):
            tgt = p.targets[0] if isinstance(p, ast.Assign) else p.target
            if isinstance(tgt, ast.Name) and any(s in tgt.id.lower() for s in ('msg', 'message', 'warning', 'report')):
                return True
        p = parents.get(id(p))
    return False


def mutants_of(fn: ast.FunctionDef):
    """Yields (description, mutated copy of fn)."""
    parents = {}
    nodes = []
    for n in ast.walk(fn):
        for c in ast.iter_child_nodes(n):
            parents[id(c)] = n
    body_nodes = []
    for stmt in fn.body:
        if isinstance(stmt, ast.Expr) and isinstance(stmt.value, ast.Constant) and isinstance(stmt.value.value, str):
            continue   # docstring
        body_nodes.extend(ast.walk(stmt))
    index = {id(n): i for i, n in enumerate(ast.walk(fn))}

    def mutate(target, fn_edit, desc):
        new = copy.deepcopy(fn)
        tnode = list(ast.walk(new))[index[id(target)]]
        fn_edit(tnode)
        ast.fix_missing_locations(new)
        return f'L{getattr(target, "lineno", 0)}: {desc}', new

    for n in body_nodes:
        if is_message_context(n, parents):
            continue
        if isinstance(n, ast.Compare) and len(n.ops) == 1:
            for alt in CMP_SWAPS.get(type(n.ops[0]), []):
                def ed(t, alt=alt):
                    t.ops = [alt()]
                yield mutate(n, ed, f'`{ast.unparse(n)}`: {type(n.ops[0]).__name__} -> {alt.__name__}')
        elif isinstance(n, ast.BinOp):
            if isinstance(n.op, ast.Mod) and isinstance(n.left, ast.Constant) and isinstance(n.left.value, str):
                continue
            for alt in BIN_SWAPS.get(type(n.op), []):
                def ed(t, alt=alt):
                    t.op = alt()
                yield mutate(n, ed, f'`{ast.unparse(n)}`: {type(n.op).__name__} -> {alt.__name__}')
        elif isinstance(n, ast.AugAssign):
            for alt in BIN_SWAPS.get(type(n.op), []):
                def ed(t, alt=alt):
                    t.op = alt()
                yield mutate(n, ed, f'`{ast.unparse(n)}`: {type(n.op).__name__}= -> {alt.__name__}=')
        elif isinstance(n, ast.BoolOp):
            alt = ast.Or if isinstance(n.op, ast.And) else ast.And
            def ed(t, alt=alt):
                t.op = alt()
            yield mutate(n, ed, f'`{ast.unparse(n)}`: {type(n.op).__name__} -> {alt.__name__}')
        elif isinstance(n, ast.UnaryOp) and isinstance(n.op, ast.Not):
            def ed(t):
                t.op = ast.UAdd()          # placeholder replaced below
            new = copy.deepcopy(fn)
            tnode = list(ast.walk(new))[index[id(n)]]
            par = None
            for q in ast.walk(new):
                for fld, val in ast.iter_fields(q):
                    if val is tnode:
                        setattr(q, fld, tnode.operand)
                        par = q
                    elif isinstance(val, list) and any(x is tnode for x in val):
                        val[:] = [tnode.operand if x is tnode else x for x in val]
                        par = q
            if par is not None:
                ast.fix_missing_locations(new)
                yield f'L{n.lineno}: `{ast.unparse(n)}`: negation removed', new
        elif isinstance(n, ast.UnaryOp) and isinstance(n.op, ast.USub) and not isinstance(n.operand, ast.Constant):
            new = copy.deepcopy(fn)
            tnode = list(ast.walk(new))[index[id(n)]]
            for q in ast.walk(new):
                for fld, val in ast.iter_fields(q):
                    if val is tnode:
                        setattr(q, fld, tnode.operand)
                    elif isinstance(val, list) and any(x is tnode for x in val):
                        val[:] = [tnode.operand if x is tnode else x for x in val]
            ast.fix_missing_locations(new)
            yield f'L{n.lineno}: `{ast.unparse(n)}`: minus sign removed', new
        elif isinstance(n, ast.Constant):
            if isinstance(n.value, bool):
                def ed(t):
                    t.value = not t.value
                yield mutate(n, ed, f'constant {n.value} -> {not n.value}')
            elif isinstance(n.value, int) and abs(n.value) <= 10:
                def ed(t):
                    t.value = t.value + 1
                yield mutate(n, ed, f'constant {n.value} -> {n.value + 1}')
            elif isinstance(n.value, float):
                def ed(t):
                    t.value = t.value * 2.0 if t.value != 0 else 1.0
                yield mutate(n, ed, f'constant {n.value} -> {n.value * 2.0 if n.value != 0 else 1.0}')
        elif isinstance(n, (ast.Assign, ast.AugAssign)) or (isinstance(n, ast.Expr) and isinstance(n.value, ast.Call)):
            if isinstance(n, ast.Expr):
                f = ast.unparse(n.value.func)
                if f.startswith(('logger.', 'logging.', 'warnings.', 'print')):
                    continue
            par = parents.get(id(n))
            if par is None:
                continue
            if isinstance(n, ast.Assign) and all(isinstance(t, ast.Name) for t in n.targets):
                # deleting the only binding of a local gives a NameError on first use: no test suite misses that
                binds = [x for x in ast.walk(fn) if isinstance(x, ast.Name) and isinstance(x.ctx, ast.Store) and x.id == n.targets[0].id]
                if len(binds) <= 1:
                    continue
            new = copy.deepcopy(fn)
            tnode = list(ast.walk(new))[index[id(n)]]
            done = False
            for q in ast.walk(new):
                for fld in ('body', 'orelse', 'finalbody'):
                    lst = getattr(q, fld, None)
                    if isinstance(lst, list) and any(x is tnode for x in lst):
                        lst[:] = [ast.Pass() if x is tnode else x for x in lst]
                        done = True
            if done:
                ast.fix_missing_locations(new)
                yield f'L{n.lineno}: statement `{ast.unparse(n)[:70]}` deleted', new
        elif isinstance(n, ast.Raise):
            new = copy.deepcopy(fn)
            tnode = list(ast.walk(new))[index[id(n)]]
            done = False
            for q in ast.walk(new):
                for fld in ('body', 'orelse', 'finalbody'):
                    lst = getattr(q, fld, None)
                    if isinstance(lst, list) and any(x is tnode for x in lst):
                        lst[:] = [ast.Pass() if x is tnode else x for x in lst]
                        done = True
            if done:
                ast.fix_missing_locations(new)
                yield f'L{n.lineno}: `{ast.unparse(n)[:60]}` deleted', new
        elif isinstance(n, ast.Return) and n.value is not None and not (isinstance(n.value, ast.Constant) and n.value.value is None):
            def ed(t):
                t.value = ast.Constant(None)
            yield mutate(n, ed, f'`{ast.unparse(n)[:60]}` -> return None')


def worker_main():
    """Child process: VERIF_REPO points to the scratch tree; argv: prop, json list of contract keys, timeout_ms."""
    prop, keys, timeout_ms = sys.argv[2], json.loads(sys.argv[3]), int(sys.argv[4])
    import importlib
    import pyvc.verify  # noqa: F401  (loads the extensions)
    from pyvc.contract import REGISTRY
    from pyvc.repo import get_repo
    from pyvc import specs_runtime
    from pyvc.verify import verify_function
    pm = importlib.import_module(f'props.{prop}')
    for m in pm.CONTRACT_MODULES:
        importlib.import_module('contracts.' + m)
    specs = specs_runtime.load_specs()
    base = json.loads(sys.argv[5]) if len(sys.argv) > 5 else None     # names discharged on the unchanged function
    from pyvc.verify import discharge
    out = {}
    stop = False
    for k in keys:
        con = REGISTRY.contracts[k]
        deferred = []
        r = verify_function(get_repo(), REGISTRY, con, prop, specs, timeout_ms, defer=deferred)
        obl = {o.name: o.status for o in r.obligations}
        for (_res, obligs, witness) in deferred:
            for ob in obligs:
                if stop:
                    obl.setdefault(ob.name, 'skipped')
                    continue
                d = discharge(ob, timeout_ms, witness)
                obl[d.name] = d.status
                if base is not None and d.status == 'failed':
                    stop = True          # one failed obligation kills the mutant: the rest is not needed
        out[k] = {'status': r.status, 'error': (r.error or '')[:300], 'obligations': obl}
    print('MUTRESULT ' + json.dumps(out))


def run_child(scratch, prop, keys, timeout_ms, wall=900, base=None):
    env = dict(os.environ)
    env['VERIF_REPO'] = scratch
    env['PYTHONPATH'] = VERIF
    try:
        r = subprocess.run([sys.executable, os.path.abspath(__file__), '--worker', prop, json.dumps(keys), str(timeout_ms)] + ([json.dumps(base)] if base is not None else []),
                           capture_output=True, text=True, env=env, cwd=VERIF, timeout=wall)
    except subprocess.TimeoutExpired:
        return None, 'timeout'
    for line in r.stdout.splitlines():
        if line.startswith('MUTRESULT '):
            return json.loads(line[len('MUTRESULT '):]), ''
    return None, f'rc={r.returncode} ' + (r.stdout + r.stderr)[-600:]


def judge(base, res):
    """killed / undecided / survived for one mutant given baseline and mutant results (dict key -> result)."""
    killed, undecided, flagged = [], [], []
    for k, b in base.items():
        m = res.get(k)
        if m is None:
            undecided.append(f'{k}: no result')
            continue
        if m['status'] in ('out-of-subset', 'error', 'missing'):
            undecided.append(f'{k}: {m["status"]} {m["error"][:100]}')
            continue
        for name, st in b['obligations'].items():
            if st != 'discharged':
                continue
            ms = m['obligations'].get(name)
            if ms == 'failed':
                killed.append(name)
            elif ms == 'unknown':
                flagged.append(name)
            elif ms not in ('discharged', 'skipped'):
                undecided.append(f'{name}: {ms}')
        # obligations that exist only on the mutant (e.g. safe:bound:<local>, a new safe:* / raises:unexpected-*): a failed
        # one is a violation for ./check as well; an unknown one makes the run undecided
        for name, ms in m['obligations'].items():
            if name not in b['obligations']:
                if ms == 'failed':
                    killed.append(name)
                elif ms == 'unknown':
                    undecided.append(f'{name}: unknown (new obligation)')
    if killed:
        return 'killed', killed
    if flagged:
        # discharged on the unchanged function, not provable on the changed one: ./check reports it (replayed; or
        # `no-failing-input-found` by the baseline + source-hash rule)
        return 'flagged', flagged
    if undecided:
        return 'undecided', undecided
    return 'survived', []


def main():
    ap = argparse.ArgumentParser()
    ap.add_argument('prop')
    ap.add_argument('--max', type=int, default=12, help='mutants per function (sampled with --seed)')
    ap.add_argument('--jobs', type=int, default=16)
    ap.add_argument('--seed', type=int, default=0)
    ap.add_argument('--only', default='')
    ap.add_argument('--timeout-ms', type=int, default=8000)
    a = ap.parse_args()
    import importlib
    from concurrent.futures import ThreadPoolExecutor
    import pyvc.verify  # noqa: F401  (loads the extensions)
    from pyvc.contract import REGISTRY
    from pyvc.repo import get_repo
    pm = importlib.import_module(f'props.{a.prop}')
    for m in pm.CONTRACT_MODULES:
        importlib.import_module('contracts.' + m)
    repo = get_repo()
    groups = {}     # qualname -> [contract keys]
    for k, c in REGISTRY.contracts.items():
        if a.prop in c.props and c.verify and a.only in k:
            groups.setdefault(c.qualname, []).append(k)
    rng = random.Random(a.seed)
    src_root = os.path.join(os.environ.get('VERIF_REPO', '/repo'), 'src')
    work = tempfile.mkdtemp(prefix='mutself_')
    scratches = []
    try:
        for i in range(a.jobs):
            d = os.path.join(work, f'w{i}')
            shutil.copytree(src_root, os.path.join(d, 'src'), ignore=shutil.ignore_patterns('__pycache__', '*.so', '*.pyc'))
            scratches.append(d)
        # baseline per function (unchanged tree)
        t0 = time.time()
        tasks = []
        for q, keys in groups.items():
            fi = repo.function(q)
            if fi is None:
                continue
            muts = list(mutants_of(fi.node))
            rng.shuffle(muts)
            muts = muts[:a.max]
            tasks.append((q, keys, fi, muts))
        print(f'{a.prop}: {len(tasks)} functions under verified contract, {sum(len(t[3]) for t in tasks)} mutants', flush=True)
        free = list(scratches)
        base_of = {}
        import threading
        lock = threading.Lock()

        def with_scratch(fn):
            with lock:
                d = free.pop()
            try:
                return fn(d)
            finally:
                with lock:
                    free.append(d)

        def baseline_job(t):
            q, keys, fi, muts = t
            return with_scratch(lambda d: run_child(d, a.prop, keys, a.timeout_ms))

        def mutant_job(job):
            q, keys, fi, desc, newfn = job
            def run(d):
                rel = os.path.relpath(fi.file, src_root) if fi.file.startswith(src_root) else None
                path = os.path.join(d, 'src', rel) if rel else None
                if path is None or not os.path.exists(path):
                    # fi.file may be relative to the repo
                    cand = os.path.join(d, fi.file) if not os.path.isabs(fi.file) else None
                    path = cand if cand and os.path.exists(cand) else path
                orig = open(path).read()
                tree = ast.parse(orig)
                # replace the function node (same class / name / line)
                replaced = False
                for node in ast.walk(tree):
                    for fld in ('body',):
                        lst = getattr(node, fld, None)
                        if isinstance(lst, list):
                            for idx, x in enumerate(lst):
                                if isinstance(x, (ast.FunctionDef,)) and x.name == fi.node.name and x.lineno == fi.node.lineno:
                                    lst[idx] = newfn
                                    replaced = True
                if not replaced:
                    return None, 'function node not found in the scratch file'
                try:
                    open(path, 'w').write(ast.unparse(tree))
                    names = [n for k in keys for n, s_ in base_of[q][k]['obligations'].items() if s_ == 'discharged']
                    return run_child(d, a.prop, keys, a.timeout_ms, base=names)
                finally:
                    open(path, 'w').write(orig)
            return with_scratch(run)

        with ThreadPoolExecutor(a.jobs) as pool:
            bases = list(pool.map(baseline_job, tasks))
            jobs = []
            for t, (b, err) in zip(tasks, bases):
                q, keys, fi, muts = t
                if b is None:
                    print(f'  baseline of {q} failed: {err[:200]}')
                    continue
                for desc, newfn in muts:
                    jobs.append((q, keys, fi, desc, newfn))
            base_of.update({t[0]: b for t, (b, err) in zip(tasks, bases) if b is not None})
            results = list(pool.map(mutant_job, jobs))
        report = {}
        for (q, keys, fi, desc, newfn), (res, err) in zip(jobs, results):
            ent = report.setdefault(q, {'keys': keys, 'baseline_not_discharged': [n for k in keys for n, s in base_of[q][k]['obligations'].items() if s != 'discharged'],
                                        'mutants': []})
            if res is None:
                ent['mutants'].append({'mutant': desc, 'verdict': 'error', 'by': [err[:200]]})
                continue
            verdict, by = judge(base_of[q], res)
            ent['mutants'].append({'mutant': desc, 'verdict': verdict, 'by': by[:4]})
        tot = {'killed': 0, 'flagged': 0, 'undecided': 0, 'survived': 0, 'error': 0}
        for q, ent in report.items():
            for m in ent['mutants']:
                tot[m['verdict']] += 1
        out = {'property': a.prop, 'seed': a.seed, 'max_per_function': a.max, 'timeout_ms': a.timeout_ms,
               'functions': len(report), 'totals': tot, 'seconds': round(time.time() - t0, 1), 'report': report}
        os.makedirs(os.path.join(VERIF, 'mutation'), exist_ok=True)
        with open(os.path.join(VERIF, 'mutation', f'{a.prop}.json'), 'w') as f:
            json.dump(out, f, indent=1)
        print(f'{a.prop}: {tot}  in {out["seconds"]}s')
        for q, ent in report.items():
            sv = [m['mutant'] for m in ent['mutants'] if m['verdict'] == 'survived']
            if sv:
                print(f'  SURVIVED in {q}:')
                for s in sv:
                    print(f'     {s}')
    finally:
        shutil.rmtree(work, ignore_errors=True)


if __name__ == '__main__':
    if len(sys.argv) > 1 and sys.argv[1] == '--worker':
        worker_main()
    else:
        main()
