#!/bin/sh
# runs every claimed check (quick tier) on the current /repo and prints one line per property
cd /verif
for p in $(python3 -c "import json;print(' '.join(c['property_id'] for c in json.load(open('MANIFEST.json'))['checks']))"); do
  t0=$(date +%s)
  ./check $p > /tmp/sweep_$p.txt 2>&1; rc=$?
  t1=$(date +%s)
  echo "$p exit=$rc $((t1-t0))s $(grep -c '^VIOLATION' /tmp/sweep_$p.txt) violations; $(grep 'obligations discharged' /tmp/sweep_$p.txt | cut -c1-150)"
done
