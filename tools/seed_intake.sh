#!/bin/sh
# usage: tools/seed_intake.sh <batch dir under /verif, e.g. seeded2> <prefix of the agent's dirs, e.g. seed2> Cxx
# confirms an independently produced change (patch applies on /repo HEAD, demo PASSes on /repo and FAILs on the agent's worktree),
# stores it under /verif/<batch>/Cxx and removes the agent's worktree and output directory.
BATCH=$1; PRE=$2; ID=$3
OUT=/tmp/${PRE}_${ID}_out; WT=/tmp/${PRE}_${ID}; DST=/verif/$BATCH/$ID
test -f $OUT/patch.diff && test -f $OUT/demo.py && test -f $OUT/meta.json || { echo "$ID: deliverables missing"; exit 1; }
git -C /repo apply --check $OUT/patch.diff || { echo "$ID: patch does not apply on /repo HEAD"; exit 1; }
(cd /tmp && PYTHONPATH=/repo/src timeout 900 /venv/bin/python $OUT/demo.py > /tmp/${PRE}_${ID}_demo_repo.txt 2>&1); R1=$?
(cd /tmp && PYTHONPATH=$WT/src timeout 900 /venv/bin/python $OUT/demo.py > /tmp/${PRE}_${ID}_demo_wt.txt 2>&1); R2=$?
echo "$ID: demo on /repo exit=$R1, on the changed tree exit=$R2"
if [ $R1 -ne 0 ] || [ $R2 -eq 0 ]; then echo "$ID: NOT CONFIRMED"; tail -3 /tmp/${PRE}_${ID}_demo_repo.txt /tmp/${PRE}_${ID}_demo_wt.txt; exit 1; fi
mkdir -p $DST && cp $OUT/patch.diff $OUT/demo.py $OUT/meta.json $DST/
python3 - <<PY
import json
p='$DST/meta.json'; m=json.load(open(p))
m['confirmed']={'demo_on_repo':'PASS (exit 0)','demo_on_changed_tree':'FAIL (exit $R2)','patch_applies_on_repo_head':True,'tests':'as run by the seeding agent (see tests_run)'}
json.dump(m,open(p,'w'),indent=1)
PY
git -C /repo worktree remove --force $WT 2>/dev/null; git -C /repo worktree prune; rm -rf $OUT /tmp/${PRE}_${ID}_demo_*.txt
echo "$ID: stored in $DST"
