"""Spec functions for C12 (audit descent and the recursive placement collectors).

The induction scheme: one uninterpreted value per (sub-formula, database) for what a recursive
method returns on that sub-formula.  The assumed abstract contract of the virtual method ties its
result to that value (induction hypothesis); the verified contract of every implementation
states the value it returns in terms of the values of its children (induction step).

    aud_err(e, db)         the list of error messages that e.audit(db) returns (a sequence value)
    aud_nerr(e, db)        its length
    c12_fresh_lists(res)   res is a pair of two distinct list objects allocated by the call
    c12_includes(a, b)     every element of the sequence b occurs in the sequence a
    draws_out(e) / rv_out(e) / vars_out(e)
                           the set of names e.check_draws() / check_rv() / check_panel_trajectory() returns
    c12_set_is(s, dom)     the set object s has exactly the members of the set value dom
    c12_union_children(kind, children)  union over the children of the kind-collector values
    c12_single(name) / c12_empty()     set values
"""
import z3

from pyvc import lib
from pyvc import vals as VV
from pyvc.specs_runtime import spec
from pyvc.state import Unsupported
from pyvc.vals import ANY, B, I, STR, V, Val, as_int, as_ref, fresh_name, uf, v_bool, v_int

SEQ = z3.ArraySort(I, Val)


def lib_pattern_ok(t):
    from pyvc.state import pattern_ok
    return pattern_ok(t)
DOM = z3.ArraySort(Val, B)


def _err_parts(ex, st, e, db):
    et, dt = ex.box(st, e), ex.box(st, db)
    n = uf('C12.err_len', Val, Val, I)(et, dt)
    arr = uf('C12.err_arr', Val, Val, SEQ)(et, dt)
    return n, arr


@spec('aud_err')
def aud_err(ex, st, e, db):
    n, arr = _err_parts(ex, st, e, db)
    st.assume(n >= 0)
    return lib.spec_seq(ex, st, n, arr, STR)


@spec('aud_nerr')
def aud_nerr(ex, st, e, db):
    n, _ = _err_parts(ex, st, e, db)
    st.assume(n >= 0)
    return v_int(n)


@spec('aud_raises')
def aud_raises(ex, st, e, db):
    return v_bool(uf('C12.aud_raises', Val, Val, B)(ex.box(st, e), ex.box(st, db)))


def _pair(ex, st, res):
    if res.kind != 'tuple':
        raise Unsupported('c12_fresh_lists: not a pair')
    if res.items is not None:
        if len(res.items) != 2:
            raise Unsupported('c12_fresh_lists: not a pair')
        return res.items
    tys = res.ty.args if len(res.ty.args) == 2 else (ANY, ANY)
    return [V(Val.hd(res.t), tys[0]), V(Val.hd(Val.tl(res.t)), tys[1])]


@spec('c12_fresh_lists')
def c12_fresh_lists(ex, st, res):
    """Verification mode (post-condition of the function under proof, frame depth 0): both lists
    were allocated by this call (reference >= the entry allocation pointer, below the current one)
    and are distinct objects.  Call-site mode (the contract is assumed for a callee): the two
    references are new for the caller (>= its current allocation pointer) and distinct; the
    caller's allocation pointer moves past them, so everything the caller allocates later is
    distinct from them."""
    if res.kind == 'none':      # (m5) `return None`: the clause is false, not out of subset
        return v_bool(z3.BoolVal(False))
    a, b = _pair(ex, st, res)
    ra, rb = as_ref(a), as_ref(b)
    isref = z3.And(Val.is_ref(a.t), Val.is_ref(b.t))
    if ex.frame.depth == 0:
        return v_bool(z3.And(isref, ra >= st.alloc0, rb >= st.alloc0, ra < st.alloc, rb < st.alloc, ra != rb))
    fact = z3.And(isref, ra >= st.alloc, rb >= st.alloc, ra != rb)
    st.alloc = z3.If(ra > rb, ra, rb) + 1
    return v_bool(fact)


@spec('c12_includes')
def c12_includes(ex, st, big, small):
    bn, ba, _ = lib.seq_parts(ex, st, big)
    sn, sa, _ = lib.seq_parts(ex, st, small)
    j = z3.Int(fresh_name('j'))
    i = z3.Int(fresh_name('i'))
    return v_bool(z3.ForAll([j], z3.Implies(z3.And(j >= 0, j < sn),
                                            z3.Exists([i], z3.And(i >= 0, i < bn, z3.Select(ba, i) == z3.Select(sa, j))))))


# ---- placement collectors: set values ---------------------------------------------------------
KINDS = {'draws': 'C12.draws_out', 'rv': 'C12.rv_out', 'vars': 'C12.vars_out'}


def _setval(dom):
    return V(None, VV.PY, py=('c12set', dom))


def _dom_of(ex, st, s):
    if s.kind == 'py' and s.py and s.py[0] == 'c12set':
        return s.py[1]
    if s.kind == 'set':
        return st.set_dom(s)
    raise Unsupported(f'c12: not a set ({s.kind})')


def _out(kind):
    def f(ex, st, e):
        return _setval(uf(KINDS[kind], Val, DOM)(ex.box(st, e)))
    return f


spec('draws_out')(_out('draws'))
spec('rv_out')(_out('rv'))
spec('vars_out')(_out('vars'))


@spec('c12_set_is')
def c12_set_is(ex, st, s, d):
    x = z3.Const(fresh_name('x'), Val)
    if s.kind == 'none':        # (m5) a collector that returns None does not return the stated set
        return v_bool(z3.BoolVal(False))
    a, b = _dom_of(ex, st, s), _dom_of(ex, st, d)
    # beta-reduce the membership terms (set comprehensions are lambdas) and state the two inclusions separately
    l, r = z3.simplify(z3.Select(a, x)), z3.simplify(z3.Select(b, x))
    return v_bool(z3.And(z3.ForAll([x], z3.Implies(l, r)), z3.ForAll([x], z3.Implies(r, l))))


@spec('c12_member')
def c12_member(ex, st, x, s):
    return v_bool(z3.Select(_dom_of(ex, st, s), ex.box(st, x)))


@spec('c12_empty')
def c12_empty(ex, st):
    return _setval(z3.K(Val, z3.BoolVal(False)))


@spec('c12_single')
def c12_single(ex, st, name):
    return _setval(z3.Store(z3.K(Val, z3.BoolVal(False)), ex.box(st, name), z3.BoolVal(True)))


@spec('c12_union_children')
def c12_union_children(ex, st, kind, children):
    """{x | exists k < len(children): x in OUT_kind(children[k])}, children = the list on entry"""
    if kind.lit not in KINDS:
        raise Unsupported('c12_union_children: unknown kind')
    if children.kind != 'list':
        raise Unsupported('c12_union_children: not a list')
    # the list as it was when the function was entered (modifies=[]: the frame obligations show that no
    # pre-existing list changes, so this is also its final content)
    r = as_ref(children)
    st.field('$len'), st.field('$elems')
    n, arr = z3.Select(st.heap0['$len'], r), z3.Select(st.heap0['$elems'], r)
    f = uf(KINDS[kind.lit], Val, DOM)
    x = z3.Const(fresh_name('x'), Val)
    k = z3.Int(fresh_name('k'))
    return _setval(z3.Lambda([x], z3.Exists([k], z3.And(k >= 0, k < n, z3.Select(f(z3.Select(arr, k)), x)))))


@spec('c12_fresh_set')
def c12_fresh_set(ex, st, s):
    """as c12_fresh_lists, for one returned set object"""
    r = as_ref(s)
    if ex.frame.depth == 0:
        return v_bool(z3.And(Val.is_ref(s.t), r >= st.alloc0, r < st.alloc))
    fact = z3.And(Val.is_ref(s.t), r >= st.alloc)
    st.alloc = r + 1
    return v_bool(fact)


@spec('c12_old_objects_unchanged')
def c12_old_objects_unchanged(ex, st, *fields):
    """Loop-invariant frame: the internal list fields of every object that existed when the function
    was entered are what they were at entry (the loops of the audit only grow lists they allocated)."""
    names = [f.lit for f in fields] or ['$len', '$elems']
    r = z3.Int(fresh_name('r'))
    facts = []
    for f in names:
        cur = st.field(f)
        old = st.heap0.get(f)
        if old is None or cur.eq(old):
            continue
        facts.append(z3.ForAll([r], z3.Implies(z3.And(r >= 0, r < st.alloc0), z3.Select(cur, r) == z3.Select(old, r))))
    return v_bool(z3.And(*facts) if facts else z3.BoolVal(True))


@spec('aud_nerr_upto')
def aud_nerr_upto(ex, st, children, db, k):
    """Number of errors of the first k members of a list of sub-formulas:
    N(elems, db, 0) = 0,  N(elems, db, k+1) = N(elems, db, k) + aud_nerr(elems[k], db).
    A function of the list CONTENTS (the array value), so that it does not change when other lists do;
    unfolded at the queried position (k-1 -> k)."""
    n, arr, _ = lib.seq_parts(ex, st, children)
    dt = ex.box(st, db)
    kt = as_int(k)
    S = uf('C12.nerr_upto', SEQ, Val, I, I)
    elen = uf('C12.err_len', Val, Val, I)
    q = z3.Int(fresh_name('q'))
    st.assume(S(arr, dt, z3.IntVal(0)) == 0)
    ax = z3.ForAll([q], z3.Implies(q >= 0, z3.And(S(arr, dt, q + 1) == S(arr, dt, q) + elen(z3.Select(arr, q), dt),
                                                  elen(z3.Select(arr, q), dt) >= 0, S(arr, dt, q) >= 0)),
                   patterns=[S(arr, dt, q + 1), elen(z3.Select(arr, q), dt)] if lib_pattern_ok(arr) else [])
    if not any(ax.eq(h) for h in st.pc[-60:]):
        st.pc.append(ax)
    st.assume(z3.Implies(kt > 0, z3.And(S(arr, dt, kt) == S(arr, dt, kt - 1) + elen(z3.Select(arr, kt - 1), dt),
                                        elen(z3.Select(arr, kt - 1), dt) >= 0)))
    return v_int(S(arr, dt, kt))


# ---- PanelLikelihoodTrajectory counter ---------------------------------------------------------------
@spec('plt_count')
def plt_count(ex, st, e):
    return v_int(uf('C12.plt_count', Val, I)(ex.box(st, e)))


@spec('plt_count_upto')
def plt_count_upto(ex, st, children, k):
    """C(elems, 0) = 0, C(elems, k+1) = C(elems, k) + plt_count(elems[k]) (function of the list contents)."""
    n, arr, _ = lib.seq_parts(ex, st, children)
    kt = as_int(k)
    S = uf('C12.plt_upto', SEQ, I, I)
    cnt = uf('C12.plt_count', Val, I)
    q = z3.Int(fresh_name('q'))
    st.assume(S(arr, z3.IntVal(0)) == 0)
    ax = z3.ForAll([q], z3.Implies(q >= 0, S(arr, q + 1) == S(arr, q) + cnt(z3.Select(arr, q))),
                   patterns=[S(arr, q + 1)] if lib_pattern_ok(arr) else [])
    if not any(ax.eq(h) for h in st.pc[-60:]):
        st.pc.append(ax)
    st.assume(z3.Implies(kt > 0, S(arr, kt) == S(arr, kt - 1) + cnt(z3.Select(arr, kt - 1))))
    return v_int(S(arr, kt))


@spec('c12_nonempty')
def c12_nonempty(ex, st, s):
    x = z3.Const(fresh_name('w'), Val)
    return v_bool(z3.Exists([x], z3.Select(_dom_of(ex, st, s), x)))


@spec('aud_in_order')
def aud_in_order(ex, st, lst, children, db, K):
    """The errors of the first K members of `children` sit in `lst` one after the other, in order:
         forall k < K:  N(k+1) <= len(lst)   and   forall j < nerr(k):  lst[N(k) + j] == ERR(children[k])[j]
    (N = aud_nerr_upto).  Same formula as the nested `forall` of the DSL, with explicit instantiation patterns."""
    ln, la, _ = lib.seq_parts(ex, st, lst)
    n, arr, _ = lib.seq_parts(ex, st, children)
    dt = ex.box(st, db)
    Kt = as_int(K)
    S = uf('C12.nerr_upto', SEQ, Val, I, I)
    elen = uf('C12.err_len', Val, Val, I)
    earr = uf('C12.err_arr', Val, Val, SEQ)
    aud_nerr_upto(ex, st, children, db, K)        # unfolding axioms
    k, j = z3.Int(fresh_name('k')), z3.Int(fresh_name('j'))
    ck = z3.Select(arr, k)
    ok = lib_pattern_ok(arr) and lib_pattern_ok(la)
    bounded = z3.ForAll([k], z3.Implies(z3.And(k >= 0, k < Kt), S(arr, dt, k + 1) <= ln),
                        patterns=[elen(ck, dt), S(arr, dt, k + 1)] if ok else [])
    placed = z3.ForAll([k, j], z3.Implies(z3.And(k >= 0, k < Kt, j >= 0, j < elen(ck, dt)),
                                          z3.Select(la, S(arr, dt, k) + j) == z3.Select(earr(ck, dt), j)),
                       patterns=[z3.Select(earr(ck, dt), j)] if ok else [])
    return v_bool(z3.And(bounded, placed))


@spec('sim_raises')
def sim_raises(ex, st, e, idm):
    return v_bool(uf('C12.sim_raises', Val, Val, B)(ex.box(st, e), ex.box(st, idm)))


@spec('names_of_type')
def names_of_type(ex, st, e, the_type):
    return _setval(uf('C12.names_of_type', Val, Val, DOM)(ex.box(st, e), ex.box(st, the_type)))


@spec('numbering_fails')
def numbering_fails(ex, st, expressions, db):
    """does IdManager.prepare refuse these formulas (a function of the list CONTENTS and the database)"""
    n, arr, _ = lib.seq_parts(ex, st, expressions)
    return v_bool(uf('C12.numbering_fails', I, SEQ, Val, B)(n, arr, ex.box(st, db)))


@spec('prepare_refuses')
def prepare_refuses(ex, st, e, db, n):
    return v_bool(uf('C12.prepare_refuses', Val, Val, Val, B)(ex.box(st, e), ex.box(st, db), ex.box(st, n)))


@spec('engine_refuses')
def engine_refuses(ex, st, e, db):
    return v_bool(uf('C12.engine_refuses', Val, Val, B)(ex.box(st, e), ex.box(st, db)))


@spec('c12_field_only_set_to')
def c12_field_only_set_to(ex, st, fname, value):
    """(m5, round 3) Frame of the propagation of an id manager: in every object, field `fname` is what it was before
    the call or is `value`.  Verification mode: before = the entry heap of the function under proof; call-site mode
    (assumed for a callee): before = the heap just before the call (apply_contract installs it as heap0)."""
    f = fname.lit
    cur = st.field(f)
    old = st.heap0.get(f)
    if old is None or cur.eq(old):
        return v_bool(z3.BoolVal(True))
    r = z3.Int(fresh_name('r'))
    vt = ex.box(st, value)
    return v_bool(z3.ForAll([r], z3.Or(z3.Select(cur, r) == z3.Select(old, r), z3.Select(cur, r) == vt)))


def _component(ex, st, res, i, what):
    """(m5, round 3) component i of the (errors, warnings) pair an audit returns.  When the body returns None instead of a
    pair the component is an ARBITRARY list (nothing can be proved about it, and c12_fresh_lists(None) is false), so such a
    body fails its contract instead of leaving the verifier's subset."""
    if res.kind == 'none':
        v = V(VV.fresh_val(f'undef!{what}_of_none'), ex.ptype('list[str]'))
        st.assume_type(v)
        return v
    return _pair(ex, st, res)[i]


@spec('c12_errs')
def c12_errs(ex, st, res):
    return _component(ex, st, res, 0, 'errors')


@spec('c12_warns')
def c12_warns(ex, st, res):
    return _component(ex, st, res, 1, 'warnings')
