"""Spec functions for C07 (round 2, tag c07c): reading the ghost record of opaque optimiser calls.

The record is written by pyvc/libext/c07c_opt.py (State.ghost['c07c:calls']).  Call numbers are 1-based.
A spec function applied to a call that did not happen evaluates to False / an unconstrained fresh value, so an
obligation that mentions it cannot be discharged by accident."""
import z3

from pyvc import lib
from pyvc import vals as VV
from pyvc.libext import c07c_opt as X
from pyvc.specs_runtime import spec
from pyvc.state import Unsupported
from pyvc.vals import ANY, I, V, Val, as_int, as_ref, fresh_name, fresh_val, v_bool, v_int, v_str


def _rec(st, k):
    kk = k.lit if k.lit is not None else None
    cs = X.calls(st)
    if not isinstance(kk, int) or not (1 <= kk <= len(cs)):
        return None
    return cs[kk - 1]


def _key(name):
    return name.lit


@spec('opt_ncalls')
def opt_ncalls(ex, st):
    """Number of opaque optimiser calls made so far by the function under verification."""
    return v_int(len(X.calls(st)))


@spec('opt_callee')
def opt_callee(ex, st, k):
    """What was called: the dotted name of a third-party routine (str), or the entry of the algorithm table."""
    r = _rec(st, k)
    if r is None:
        return V(fresh_val('nocall'), ANY)
    return V(r['callee'], ANY)


@spec('opt_algorithm')
def opt_algorithm(ex, st, qualname):
    """The value stored in biogeme.optimization.algorithms for the repo function `qualname`."""
    return V(X.algo_const(qualname.lit), ANY)


@spec('opt_sig')
def opt_sig(ex, st, k):
    """'<number of positional arguments>|<keyword names, sorted, comma separated>' of the k-th call."""
    r = _rec(st, k)
    if r is None:
        return v_str('<no such call>')
    return v_str(f"{len(r['pos'])}|{','.join(sorted(r['kw']))}")


def _arg(r, name):
    key = _key(name)
    if isinstance(key, int):
        return r['pos'][key] if 0 <= key < len(r['pos']) else None
    return r['kw'].get(key)


@spec('opt_arg')
def opt_arg(ex, st, k, name):
    """The argument (position or keyword) handed to the k-th call: the object itself."""
    r = _rec(st, k)
    a = _arg(r, name) if r is not None else None
    if a is None:
        return V(fresh_val('noarg'), ANY)
    if a.kind == 'py':
        return V(ex.box(st, a), ANY)
    return a


@spec('opt_arg_snapshot')
def opt_arg_snapshot(ex, st, k, name):
    """Content of a list / dict argument at the time of the k-th call."""
    r = _rec(st, k)
    s = r['snap'].get(_key(name)) if r is not None else None
    if s is None:
        raise Unsupported('opt_arg_snapshot: no list / dict argument of that name')
    return s


@spec('opt_result')
def opt_result(ex, st, k):
    r = _rec(st, k)
    if r is None:
        return V(fresh_val('noresult'), ANY)
    return r['result']


# ---- bounds ------------------------------------------------------------------------------------------------------
INF = z3.Real('INF')


def _generic_index():
    """`for all positions j` is stated for ONE fresh, otherwise unconstrained position (Skolem form).  As a proof GOAL this is
    equivalent to the quantified statement and keeps the negated goal quantifier free (the solver then answers sat with a
    counter-model instead of unknown).  As an ASSUMPTION it would be weaker than the quantified statement, hence still sound;
    the contracts use these predicates in positive position only."""
    return z3.Int(fresh_name('c07c!j'))


def _entry_parts(ex, st, bounds):
    """Length and contents of the caller's list AT ENTRY (independent of the frame)."""
    st.use_old += 1
    try:
        return lib.seq_parts(ex, st, bounds)
    finally:
        st.use_old -= 1


def _same_elements(ex, st, handed, bounds):
    hn, ha, _ = lib.seq_parts(ex, st, handed)
    bn, ba, _ = _entry_parts(ex, st, bounds)
    j = _generic_index()
    return z3.And(hn == bn, z3.Implies(z3.And(j >= 0, j < bn), z3.Select(ha, j) == z3.Select(ba, j)))


def _numeric_side(ex, st, arr_v, bounds, side):
    """arr_v: numpy.array(L) record; L[j] is the number bounds[j][side], or -inf (side 0) / +inf (side 1) when it is None."""
    info = st.ghost.get(X.OBJ + str(as_ref(arr_v).get_id())) if arr_v.kind == 'ref' else None
    if info is None or info['what'] != 'ndarray_of':
        return z3.BoolVal(False)
    ln, la, _ = lib.seq_parts(ex, st, info['snap'])
    bn, ba, _ = _entry_parts(ex, st, bounds)
    j = _generic_index()
    pair = z3.Select(ba, j)
    b = Val.hd(pair) if side == 0 else Val.hd(Val.tl(pair))
    e = z3.Select(la, j)
    want = z3.If(Val.is_none(b), Val.num(-INF if side == 0 else INF), b)
    st.assume(INF > 10 ** 300)          # numpy.inf: larger than every float (only `INF != 0` matters here)
    return z3.And(ln == bn, z3.Implies(z3.And(j >= 0, j < bn), e == want))


@spec('opt_bounds_ok')
def opt_bounds_ok(ex, st, k, name, bounds):
    """The bounds handed to the k-th call ARE the caller's bounds: the same pairs in the same order, where a pair may
    have been rewritten None -> -inf (lower) / +inf (upper) and every other value (0 and negative values included) is kept.
    Accepted carriers: the list itself / a list with the same elements; biogeme_optimization Bounds(list);
    scipy.optimize.Bounds(lb=numpy.array(L), ub=numpy.array(U))."""
    r = _rec(st, k)
    a = _arg(r, name) if r is not None else None
    if a is None:
        return v_bool(False)
    if a.kind == 'list':
        return v_bool(_same_elements(ex, st, r['snap'][_key(name)], bounds))
    if a.kind == 'ref':
        info = st.ghost.get(X.OBJ + str(as_ref(a).get_id()))
        if info is None:
            return v_bool(False)
        if info['what'] == 'bio_bounds' and info.get('snap') is not None:
            return v_bool(_same_elements(ex, st, info['snap'], bounds))
        if info['what'] == 'scipy_bounds':
            f = info['fields']
            if set(f) - {'lb', 'ub', 'keep_feasible'} or 'lb' not in f or 'ub' not in f:
                return v_bool(False)
            return v_bool(z3.And(_numeric_side(ex, st, f['lb'], bounds, 0), _numeric_side(ex, st, f['ub'], bounds, 1)))
    return v_bool(False)


@spec('opt_is_array_of')
def opt_is_array_of(ex, st, value, lst):
    """`value` is an array built by numpy.array(L) inside this function where L held, element by element, what the list `lst`
    held AT ENTRY."""
    alts = []
    for key, info in st.ghost.items():
        if isinstance(key, str) and key.startswith(X.OBJ) and info.get('what') == 'ndarray_of':
            alts.append(z3.And(value.t == Val.ref(info['ref']), _same_elements(ex, st, info['snap'], lst)))
    return v_bool(z3.Or(*alts) if alts else z3.BoolVal(False))


# ---- the objective closure handed to scipy ---------------------------------------------------------------------------
@spec('opt_objective_is_f_g')
def opt_objective_is_f_g(ex, st, k, name, fct):
    """The callable handed as `name` to the k-th call, applied to ANY point x, stores x in `fct` (set_variables) and
    returns (fct.f_g().function, fct.f_g().gradient) evaluated at that x."""
    r = _rec(st, k)
    a = _arg(r, name) if r is not None else None
    p = r.get('probe') if r is not None else None
    if a is None or p is None or a.kind != 'py':
        return v_bool(False)
    x, val = p['x'], p['value']
    want = Val.tup(X.ftm_value('f_g', fct.t, x.t, 'function'), Val.tup(X.ftm_value('f_g', fct.t, x.t, 'gradient'), Val.nil))
    if val.kind == 'py' or val.t is None:
        return v_bool(False)
    return v_bool(val.t == want)


# ---- scipy options ---------------------------------------------------------------------------------------------------
@spec('opt_options_ok')
def opt_options_ok(ex, st, k, name, parameters, defaults):
    """The dict handed as `name`: every key of `parameters` (when not None) with the caller's value, every other key of
    `defaults` (['key', value, ...] evaluated in the function's scope) with the default value, and no other key."""
    r = _rec(st, k)
    snap = r['snap'].get(_key(name)) if r is not None else None
    if snap is None or snap.kind != 'py' or snap.py[0] != 'c07c_dictsnap':
        return v_bool(False)
    dom, mp = snap.py[1], snap.py[2]
    x = z3.Const(fresh_name('c07c!key'), Val)       # generic key (Skolem form, see _generic_index)
    if parameters.kind in ('none',):
        p_has, p_val = z3.BoolVal(False), Val.none
    else:
        pr = as_ref(parameters)
        notnone = z3.Not(VV.is_none(parameters))
        p_has = z3.And(notnone, z3.Select(st.read(pr, '$dom'), x))
        p_val = z3.Select(st.read(pr, '$map'), x)
    # defaults: ['key1', value1, 'key2', value2, ...] (a list display of concrete even length in the contract text)
    if defaults.kind != 'py' or defaults.py[0] != 'specseq':
        raise Unsupported('opt_options_ok: defaults must be a list display')
    n_c = z3.simplify(defaults.py[1])
    if not z3.is_int_value(n_c) or n_c.as_long() % 2:
        raise Unsupported('opt_options_ok: defaults must have a concrete even length')
    arr = defaults.py[2]
    d_has, d_val = z3.BoolVal(False), Val.none
    for i in reversed(range(0, n_c.as_long(), 2)):
        kt, vt = z3.Select(arr, z3.IntVal(i)), z3.Select(arr, z3.IntVal(i + 1))
        d_val = z3.If(x == kt, vt, d_val)
        d_has = z3.Or(x == kt, d_has)
    return v_bool(z3.And(z3.Select(dom, x) == z3.Or(p_has, d_has),
                         z3.Implies(p_has, z3.Select(mp, x) == p_val),
                         z3.Implies(z3.And(d_has, z3.Not(p_has)), z3.Select(mp, x) == d_val)))


@spec('ftm_default')
def ftm_default(ex, st, name):
    """Library default of FunctionToMinimize.__init__ for `epsilon` / `steptol` (an opaque constant)."""
    return V(z3.Const(f'c07c_ftm_default_{name.lit}', Val), ANY)
