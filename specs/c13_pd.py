"""Spec functions for C13: the LIBSPEC-pd observers / members usable in contract text.

c13_src(r), c13_npos(r), c13_pos(r, j) : description of the object r = df.iloc[P]  (positional take)
c13_nparts(r), c13_part(r, j)        : description of the object r = pd.concat(L)
                                        (ghost heap fields $pdsrc / $len / $elems written by pyvc/libext/c13_pandas.py)
c13_pd(name, args...)                 : the pure uninterpreted member pd.<name> of LIBSPEC-pd
                                         (col, mask, isin, sample$frac, unique, shuffled, chunk, index)
"""
import z3

from pyvc.specs_runtime import spec
from pyvc.vals import ANY, T, V, Val, as_int, uf, v_int

_RCLS = {'col': 'Series', 'mask': 'DataFrame', 'isin': 'Series', 'sample$frac': 'DataFrame', 'index': 'Index'}


def _ref(ex, st, r):
    return Val.rv(ex.box(st, r))


@spec('c13_src')
def pd_src(ex, st, r):
    return V(st.read(_ref(ex, st, r), '$pdsrc'), T('ref', cls='DataFrame'))


@spec('c13_npos')
def pd_npos(ex, st, r):
    return v_int(st.read(_ref(ex, st, r), '$len'))


@spec('c13_pos')
def pd_pos(ex, st, r, j):
    return v_int(z3.ToInt(Val.nv(z3.Select(st.read(_ref(ex, st, r), '$elems'), as_int(j)))))


@spec('c13_nparts')
def pd_nparts(ex, st, r):
    return v_int(st.read(_ref(ex, st, r), '$len'))


@spec('c13_part')
def pd_part(ex, st, r, j):
    return V(z3.Select(st.read(_ref(ex, st, r), '$elems'), as_int(j)), T('ref', cls='DataFrame'))


@spec('c13_pd')
def pd(ex, st, name, *args):
    nm = name.lit
    if nm == 'chunk':          # chunk(x, k, j): numbers are boxed as reals, like the handler does
        x, k, j = args
        t = uf('pd.chunk', Val, Val, Val, Val)(ex.box(st, x), Val.num(z3.ToReal(as_int(k))), Val.num(z3.ToReal(as_int(j))))
        return V(t, T('ref', cls='DataFrame') if (x.kind == 'ref' and x.ty.cls == 'DataFrame') else ANY)
    f = uf('pd.' + nm, *([Val] * len(args)), Val)
    rc = _RCLS.get(nm)
    return V(f(*[ex.box(st, a) for a in args]), T('ref', cls=rc) if rc else ANY)


@spec('c13_allocated')
def c13_allocated(ex, st, obj):
    """the object exists in the current state (reference below the allocation pointer), hence differs from
    every object created later; the engine's loop rule does not assume this for the contents of a havocked list"""
    from pyvc.vals import v_bool
    r = _ref(ex, st, obj)
    return v_bool(z3.And(Val.is_ref(ex.box(st, obj)), r >= 0, r < st.alloc))
