"""C18 trusted base: symbolic differentiation of the reference MDCEV utilities.

The reference utilities (one per variant, with / without outside good) are written once as plain
Python expressions over the names

    x   consumption (the differentiation variable)        V   baseline utility (scalar value)
    e   error term, already divided by the scale          p   price (1 when there are no prices)
    g   gamma (translation)      a   alpha (satiation)    mu  second utility of the non-monotonic model

and the functions exp, log.  `d(expr)` differentiates with respect to x with the textbook rules
over + - * / exp log and u**c (c free of x); `contract_text` turns an expression into contract
text (exp -> app('numpy.exp', .), names -> the given spec expressions).  The differentiator is
cross-checked against sympy at every run (props/C18.py, obligation C18:lemma:differentiator-vs-sympy).
"""
from __future__ import annotations

import ast

VAR = 'x'

# --- reference utilities (technical report "Estimating the MDCEV model with Biogeme") ----------
UTILITIES = {
    # variant: (outside good (gamma is None), regular good)
    'gamma_profile': ('exp(V + e) * log(x / p)',
                      'exp(V + e) * g * log(1 + x / (p * g))'),
    'translated': ('exp(V + e + a * log(x))',
                   'exp(V + e + a * log(x + g))'),
    'generalized': ('exp(V + e) * (x / p) ** a / a',
                    'exp(V + e) * g * ((1 + x / (p * g)) ** a - 1) / a'),
    'non_monotonic': ('exp(V) * x ** a / a + (mu + e) * x',
                      'g * exp(V) * ((1 + x / g) ** a - 1) / a + (mu + e) * x'),
}


def _parse(src) -> ast.expr:
    return src if isinstance(src, ast.AST) else ast.parse(src, mode='eval').body


def _num(v):
    return ast.Constant(value=v)


def _is_const(n, v=None):
    return isinstance(n, ast.Constant) and isinstance(n.value, (int, float)) and (v is None or n.value == v)


def _depends(n) -> bool:
    return any(isinstance(k, ast.Name) and k.id == VAR for k in ast.walk(n))


def _add(a, b):
    if _is_const(a, 0):
        return b
    if _is_const(b, 0):
        return a
    return ast.BinOp(a, ast.Add(), b)


def _sub(a, b):
    if _is_const(b, 0):
        return a
    if _is_const(a, 0):
        return ast.UnaryOp(ast.USub(), b)
    return ast.BinOp(a, ast.Sub(), b)


def _mul(a, b):
    if _is_const(a, 0) or _is_const(b, 0):
        return _num(0)
    if _is_const(a, 1):
        return b
    if _is_const(b, 1):
        return a
    return ast.BinOp(a, ast.Mult(), b)


def _div(a, b):
    if _is_const(a, 0):
        return _num(0)
    return ast.BinOp(a, ast.Div(), b)


def _d(n: ast.expr) -> ast.expr:
    if not _depends(n):
        return _num(0)
    if isinstance(n, ast.Name):
        return _num(1)                      # n is x (it depends on x)
    if isinstance(n, ast.UnaryOp) and isinstance(n.op, ast.USub):
        return ast.UnaryOp(ast.USub(), _d(n.operand))
    if isinstance(n, ast.BinOp):
        u, v = n.left, n.right
        if isinstance(n.op, ast.Add):
            return _add(_d(u), _d(v))
        if isinstance(n.op, ast.Sub):
            return _sub(_d(u), _d(v))
        if isinstance(n.op, ast.Mult):
            return _add(_mul(_d(u), v), _mul(u, _d(v)))
        if isinstance(n.op, ast.Div):
            if not _depends(v):
                return _div(_d(u), v)
            return _div(_sub(_mul(_d(u), v), _mul(u, _d(v))), ast.BinOp(v, ast.Mult(), v))
        if isinstance(n.op, ast.Pow):
            if _depends(v):
                raise ValueError('exponent depends on x')
            return _mul(_mul(v, ast.BinOp(u, ast.Pow(), ast.BinOp(v, ast.Sub(), _num(1)))), _d(u))
    if isinstance(n, ast.Call) and isinstance(n.func, ast.Name) and len(n.args) == 1:
        u = n.args[0]
        if n.func.id == 'exp':
            return _mul(n, _d(u))
        if n.func.id == 'log':
            return _div(_d(u), u)
    raise ValueError(f'cannot differentiate {ast.dump(n)[:80]}')


def d(src) -> str:
    """d/dx of the expression, as Python source."""
    return ast.unparse(ast.fix_missing_locations(_d(_parse(src))))


class _Subst(ast.NodeTransformer):
    def __init__(self, mapping, funcs):
        self.mapping, self.funcs = mapping, funcs

    def visit_Name(self, node):
        if node.id in self.mapping:
            return _parse(self.mapping[node.id])
        return node

    def visit_Call(self, node):
        node = self.generic_visit_call(node)
        return node

    def generic_visit_call(self, node):
        args = [self.visit(a) for a in node.args]
        if isinstance(node.func, ast.Name) and node.func.id in self.funcs:
            return ast.Call(ast.Name('app', ast.Load()), [ast.Constant(self.funcs[node.func.id])] + args, [])
        return ast.Call(node.func, args, node.keywords)


def substitute(src, mapping: dict[str, str], funcs: dict[str, str] | None = None) -> str:
    """Replace names by expressions (and exp/log by LIBSPEC applications when `funcs` is given)."""
    tree = _Subst(mapping, funcs or {}).visit(_parse(ast.unparse(_parse(src))))
    return ast.unparse(ast.fix_missing_locations(tree))


def contract_text(src, mapping: dict[str, str]) -> str:
    return substitute(src, mapping, {'exp': 'numpy.exp', 'log': 'numpy.log'})
