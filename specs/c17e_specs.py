"""Spec functions of the C17 segmentation contracts (round 3, agent c17e; contracts/c17e_segmentation.py).

The (segmentation, category) POSITIONS of a Segmentation object: `segs` is the sequence of its OneSegmentation objects,
n(s) = len(segs[s].mapping) the number of non-reference categories of segmentation s.  The positions are numbered
segmentation by segmentation, category by category:

    c17e_off(segs, s)   number of positions before segmentation s:   off(0) = 0,  off(s + 1) = off(s) + n(s)
    c17e_seg(segs, p)   the segmentation of position p               } the unique (s, q) with  off(s) + q == p,  0 <= q < n(s)
    c17e_cat(segs, p)   the rank of its category in segs[s].mapping  }          (for 0 <= p < off(len(segs)))

These are uninterpreted functions of the sequence object; c17e_flat_definition(segs) ASSUMES their defining axioms
(DEFINITION, a conservative extension: off by recursion; every position p < off(len) is off(s) + q for exactly one pair,
by induction on s), stated in both directions (decode: p -> (s, q); encode: (s, q) -> p).  The axioms are read in the heap
of the point of use (the functions under contract leave the segmentation objects unchanged: frame obligations).
The nested comprehension `[e for s in segs for e in inner(s)]` is modelled with the same symbols (pyvc/libext/c17e_ext.py),
after the obligation that len(inner(s)) == n(s) for every s.
"""
import ast

import z3

from pyvc.specs_runtime import spec
from pyvc.vals import I, V, Val, as_int, v_bool, v_int

LENGTH_TEXT = 'len(segs[s].mapping)'

AXIOMS = {
    'offset-recursion': "c17e_off(segs, 0) == 0 and forall(lambda s: c17e_off(segs, s + 1) == c17e_off(segs, s) + len(segs[s].mapping), 0, len(segs))",
    'decode': "forall(lambda p: 0 <= c17e_seg(segs, p) and c17e_seg(segs, p) < len(segs) and 0 <= c17e_cat(segs, p) and "
              "c17e_cat(segs, p) < len(segs[c17e_seg(segs, p)].mapping) and "
              "c17e_off(segs, c17e_seg(segs, p)) + c17e_cat(segs, p) == p, 0, c17e_off(segs, len(segs)))",
    'encode': "forall(lambda s: forall(lambda q: c17e_seg(segs, c17e_off(segs, s) + q) == s and c17e_cat(segs, c17e_off(segs, s) + q) == q, "
              "0, len(segs[s].mapping)), 0, len(segs))",
}


def _box(segs: V):
    return segs.t


def _fn(name):
    return z3.Function(name, Val, I, I)


def off_term(segs: V, s):
    return _fn('c17e_off')(_box(segs), s)


def seg_term(segs: V, p):
    return _fn('c17e_seg')(_box(segs), p)


def cat_term(segs: V, p):
    return _fn('c17e_cat')(_box(segs), p)


@spec('c17e_off')
def c17e_off(ex, st, segs, s):
    return v_int(off_term(segs, as_int(s)))


@spec('c17e_seg')
def c17e_seg(ex, st, segs, p):
    return v_int(seg_term(segs, as_int(p)))


@spec('c17e_cat')
def c17e_cat(ex, st, segs, p):
    return v_int(cat_term(segs, as_int(p)))


def eval_text(ex, st, text, env):
    saved = st.locals
    st.locals = dict(saved)
    st.locals.update(env)
    st.spec += 1
    try:
        return ex.ev(st, ast.parse(text, mode='eval').body)
    finally:
        st.spec -= 1
        st.locals = saved


def assume_definition(ex, st, segs: V):
    """the defining axioms of off / seg / cat for this sequence, once per state and heap"""
    heap = st.heap0 if st.use_old else st.heap
    mark = ('c17e-flat', segs.t.get_id(), tuple(sorted((f, a.get_id()) for f, a in heap.items() if f in ('segmentations', 'mapping', '$len', '$elems'))))
    if mark in st.ghost:
        return
    st.ghost[mark] = True
    saved_bound, saved_guards = st.bound, st.guards
    st.bound, st.guards = [], []
    try:
        for label, txt in AXIOMS.items():
            st.pc.append(ex.truth(st, eval_text(ex, st, txt, {'segs': segs})))
    finally:
        st.bound, st.guards = saved_bound, saved_guards
    ex.ctx.note('DEFINITION c17e_off / c17e_seg / c17e_cat: numbering of the (segmentation, category) positions (offset recursion, '
                'decode and encode axioms; conservative extension by induction on the segmentations; specs/c17e_specs.py)')


@spec('c17e_flat_definition')
def c17e_flat_definition(ex, st, segs):
    assume_definition(ex, st, segs)
    return v_bool(True)


@spec('c17e_npos')
def c17e_npos(ex, st, segs):
    """number of (segmentation, category) positions: off(len(segs)); its definition is unfolded where it is used"""
    if not st.bound:
        assume_definition(ex, st, segs)
    n = as_int(eval_text(ex, st, 'len(segs)', {'segs': segs}))
    return v_int(off_term(segs, n))
