"""Spec functions used by the C17 contracts (contracts/c17_builders.py)."""
import z3

from pyvc.specs_runtime import spec
from pyvc.vals import Val, v_bool


@spec('c17_allocated')
def c17_allocated(ex, st, obj):
    """the object exists in the current state (reference below the allocation pointer), hence differs from every
    object created later; the loop rule does not assume this for a local list re-bound in the loop (`results += [...]`)"""
    b = ex.box(st, obj)
    r = Val.rv(b)
    return v_bool(z3.And(Val.is_ref(b), r >= 0, r < st.alloc))
