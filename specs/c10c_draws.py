"""Spec functions of the C10 (tag c10c) contracts."""
from pyvc.specs_runtime import spec


@spec('c10c_native_table')
def c10c_native_table(ex, st):
    """the module-level dictionary biogeme.native_draws.native_random_number_generators (one pre-existing object;
    same term as the one the code reads, see pyvc/libext/c10c_numpy.py)"""
    from pyvc.libext.c10c_numpy import native_table
    return native_table(ex, st)


@spec('c10c_new_object')
def c10c_new_object(ex, st, obj):
    """the object did not exist when the function under verification was entered (reference at or above the entry
    allocation pointer).  In a callee: allocated by this call.  At a call site it only says `not one of the objects that
    existed when the CALLER was entered` (weaker than the truth, hence sound)."""
    import z3
    from pyvc.vals import Val, v_bool
    b = ex.box(st, obj)
    return v_bool(z3.And(Val.is_ref(b), Val.rv(b) >= st.alloc0))


@spec('c10c_is_dict')
def c10c_is_dict(ex, st, d):
    """A-DICT-WF for a field typed `dict | None` once None is excluded: the value is a Python dict, hence has the
    representation invariant of every dict (its key list enumerates its domain without repetition).  The core assumes
    exactly this for every field typed `dict`; for an Optional field it assumes nothing, so the fact is stated here."""
    from pyvc.vals import V, v_bool
    ty = d.ty.args[0] if d.kind == 'opt' else d.ty
    if ty.kind != 'dict':
        from pyvc.state import Unsupported
        raise Unsupported('c10c_is_dict of a value that is not typed dict')
    st.assume_wf_dict(V(d.t, ty))
    return v_bool(True)


@spec('c10c_raw')
def c10c_raw(ex, st, obj, name):
    """the value stored in field `name` of obj, untyped (for identity comparisons `is` / `is not` only: reading a
    dict-typed field the ordinary way also states the dict representation invariant, which makes the
    satisfiability check of a precondition that merely compares identities run into its time limit)"""
    from pyvc.vals import ANY, V, as_ref
    return V(st.read(as_ref(obj), name.lit), ANY)


@spec('c10c_native_ref')
def c10c_native_ref(ex, st):
    """the native generator table as a bare reference (identity comparisons only)"""
    from pyvc.libext.c10c_numpy import NATIVE_REF
    from pyvc.vals import ANY, V, Val
    return V(Val.ref(NATIVE_REF), ANY)


@spec('c10c_in')
def c10c_in(ex, st, x, d):
    """x in d for a dictionary given as a bare reference (c10c_raw / c10c_native_ref): the domain bit, nothing else"""
    import z3
    from pyvc.vals import as_ref, v_bool
    return v_bool(z3.Select(st.read(as_ref(d), '$dom'), ex.box(st, x)))
