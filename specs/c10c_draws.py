"""Spec functions of the C10 (tag c10c) contracts."""
from pyvc.specs_runtime import spec


@spec('c10c_native_table')
def c10c_native_table(ex, st):
    """the module-level dictionary biogeme.native_draws.native_random_number_generators (one pre-existing object;
    same term as the one the code reads, see pyvc/libext/c10c_numpy.py)"""
    from pyvc.libext.c10c_numpy import native_table
    return native_table(ex, st)
