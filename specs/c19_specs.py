"""Spec functions for C19."""
import z3

from pyvc import vals as VV
from pyvc.specs_runtime import spec
from pyvc.vals import ANY, I, V, Val, as_int, uf


@spec('set_elem')
def set_elem(ex, st, s, j):
    """set_elem(s, j): the j-th element in the (arbitrary, fixed) iteration order of the set s --
    the same uninterpreted enumeration the engine uses for `for x in s`."""
    en = uf('set_enum', z3.ArraySort(Val, VV.B), I, Val)
    ety = s.ty.args[0] if s.ty.args else ANY
    v = V(en(st.set_dom(s), as_int(j)), ety)
    return v


# ---- pandas table values (see pyvc/libext/c19_pandas.py) ---------------------------------------
from pyvc.libext import c19_pandas as PD
from pyvc.vals import TRef, v_int, REAL, STR


def _fv(t):
    return V(t, TRef('FrameValue'))


@spec('pd_frame')
def pd_frame(ex, st, df):
    """Table value currently held by a DataFrame object."""
    return _fv(PD.frame_of(st, df))


@spec('pd_setcol')
def pd_setcol(ex, st, f, col, val):
    return _fv(PD.setcol(ex, st, PD.frame_of(st, f), col.t, ex.box(st, val)))


@spec('pd_setcol_base')
def pd_setcol_base(ex, st, f):
    return _fv(uf('pd.setcol_base', Val, Val)(PD.frame_of(st, f)))


@spec('pd_setcol_name')
def pd_setcol_name(ex, st, f):
    return V(uf('pd.setcol_name', Val, Val)(PD.frame_of(st, f)), ANY)


@spec('pd_setcol_val')
def pd_setcol_val(ex, st, f):
    return V(uf('pd.setcol_val', Val, Val)(PD.frame_of(st, f)), ANY)


@spec('pd_sample_src')
def pd_sample_src(ex, st, f):
    return _fv(uf('pd.sample_src', Val, Val)(PD.frame_of(st, f)))


@spec('pd_sample_n')
def pd_sample_n(ex, st, f):
    return v_int(uf('pd.sample_n', Val, I)(PD.frame_of(st, f)))


@spec('pd_nparts')
def pd_nparts(ex, st, f):
    return v_int(uf('pd.nparts', Val, I)(PD.frame_of(st, f)))


@spec('pd_part')
def pd_part(ex, st, f, j):
    return _fv(uf('pd.part', Val, I, Val)(PD.frame_of(st, f), as_int(j)))


@spec('pd_sample_replace')
def pd_sample_replace(ex, st, f):
    """pd_sample_replace(f): f was drawn by DataFrame.sample(..., replace=True)."""
    from pyvc.vals import v_bool
    return v_bool(uf('pd.sample_replace', Val, VV.B)(PD.frame_of(st, f)))


@spec('pd_renumbered')
def pd_renumbered(ex, st, f):
    """pd_renumbered(f): f is the result of pd.concat(..., ignore_index=True): its rows are labelled 0..n-1."""
    from pyvc.vals import v_bool
    return v_bool(uf('pd.renumbered', Val, VV.B)(PD.frame_of(st, f)))


@spec('pd_isin_without')
def pd_isin_without(ex, st, series, s, x):
    """series.isin(s - {x}) as a mask value."""
    dom = z3.Store(st.set_dom(s), ex.box(st, x), z3.BoolVal(False))
    return PD.mk_series(uf('pd.isin', Val, z3.ArraySort(Val, VV.B), Val)(series.t, dom))


@spec('allocated')
def allocated(ex, st, obj):
    """allocated(o): the object exists in the current state (its reference is below the allocation
    pointer), hence differs from every object created later."""
    from pyvc.vals import as_ref, v_bool
    return v_bool(as_ref(obj) < st.alloc)


@spec('other_object')
def other_object(ex, st, a, b):
    """other_object(a, b): a and b are different heap objects (their references differ)."""
    from pyvc.vals import as_ref, v_bool
    return v_bool(as_ref(a) != as_ref(b))
