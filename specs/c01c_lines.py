"""C01 round 2 (tag c01c): ENGINE-SPEC lexer for LOOP-BUILT signature lines, and concatenation of
the children's signature lists.

cat_range(lambda q: <list>, lo, hi)
    the concatenation f(lo) ++ f(lo+1) ++ ... ++ f(hi-1) as a specification sequence.  Encoded like
    sum_range: per (lambda, captured values, heap) one pair of uninterpreted functions
    CL(q) = total length of the first q-lo lists, CE(q, j) = j-th element of their concatenation, with
    the DEFINING recursion  CL(lo)=0, CL(q+1)=CL(q)+len f(q),
    CE(q+1, j) = CE(q, j) if j < CL(q) else f(q)[j-CL(q)]   (a conservative definition by recursion on q)
    plus LEMMA cat-nonneg: CL(q) >= 0 for q >= lo (induction, lengths are non-negative).
    Use it under old(...) in invariants of loops that extend a list, so that the same pair of
    functions is used before and after an iteration (the heap key is then the entry heap).

eline_ok / eline_field / eline_n / eline_item
    what the engine lexer (bioString.cc: extractParentheses, split(',')) reads from a line that is
    EITHER a token list of literals and f-string holes (as specs/c01_engine.py)
    OR  P ++ suffix  where P is an arbitrary string (the line built by the previous loop iterations: the
    havocked local) and suffix is a token list starting with ','.  For the prefix the lexer's readings
    are uninterpreted functions of P:  N(P) = number of comma-separated items, IT(P, j) = item j,
    OK(P) = "the <..> {..} (..) header fields are complete inside P and the quotes of P are balanced",
    FLD_w(P) = header field w.  Laws used (each is a property of first-occurrence bracket extraction and
    of split on ','; A-STR-TOK: f-string holes contain none of  , < > { } ( ) " [ ]):
        n(P ++ ",h1,...,hm")         = N(P) + m
        item(P ++ ",h1,...,hm", j)   = IT(P, j) for j < N(P);  h_{j-N(P)+1} for N(P) <= j < N(P)+m
        field_w(P ++ suffix)         = FLD_w(P)  when OK(P)      (unknown otherwise)
        ok(P ++ suffix)              = OK(P)     (suffix has no quote)
    Items outside the line and pieces that mix literals and holes are UNKNOWN values (fresh
    uninterpreted), so nothing can be proved about them.
"""
import ast

import z3

from pyvc import lib
from pyvc import vals as VV
from pyvc.specs_runtime import spec
from pyvc.state import Unsupported
from pyvc.vals import ANY, I, V, Val, as_int, fresh_name, v_bool, v_int

from specs import c01_engine as E

_N = z3.Function('eline!n', Val, I)
_IT = z3.Function('eline!item', Val, I, Val)
_OK = z3.Function('eline!ok', Val, z3.BoolSort())
_FLD = {w: z3.Function(f'eline!fld!{w}', Val, Val) for w in ('type', 'id', 'count')}
_UNKF = {w: z3.Function(f'eline!unkfld!{w}', Val, Val) for w in ('type', 'id', 'count')}
_UNK = z3.Function('eline!unkitem', Val, I, Val)
_DELIMS = {'type': ('<', '>'), 'id': ('{', '}'), 'count': ('(', ')')}


def _decode(term):
    """token list: str | ('hole', Val term, conv, spec)  (an f-string hole)  |  ('opaque', Val term)"""
    t = z3.simplify(term)
    if z3.is_app(t) and t.decl().eq(Val.s):
        t = t.arg(0)
    if z3.is_app(t) and t.decl().name() == 'sv':
        inner = z3.simplify(t.arg(0))
        if z3.is_app(inner) and inner.decl().eq(Val.s):
            t = inner.arg(0)
        else:
            return [('opaque', inner)]
    name = t.decl().name() if z3.is_app(t) else ''
    if z3.is_const(t) and name.startswith('lit!'):
        for lit, at in VV.ATOMS.table.items():
            if at.eq(t):
                return [lit]
    if name == 'str_cat':
        return _decode(t.arg(0)) + _decode(t.arg(1))
    if name in lib.FMT_SHAPES:
        out, k = [], 0
        for p in lib.FMT_SHAPES[name]:
            if isinstance(p, str):
                out.append(p)
            else:
                out.append(('hole', t.arg(k), p[1], p[2]))
                k += 1
        return out
    if name == 'str_of':
        return [('hole', t.arg(0), '!s', '')]
    if t.sort() == Val:
        return [('opaque', t)]
    return [('opaque', Val.s(t))]


def _parse(line: V):
    """(prefix Val term | None, text of the rest with hole markers, holes, boxed whole line)"""
    if line.kind == 'py':
        raise Unsupported('eline_*: not a string')
    toks = _decode(line.t)
    prefix = None
    if toks and not isinstance(toks[0], str) and toks[0][0] == 'opaque':
        prefix = toks[0][1]
        toks = toks[1:]
    for tk in toks:
        if not isinstance(tk, str) and tk[0] == 'opaque':
            raise Unsupported('eline_*: an opaque string after the start of the line')
    text, holes = E.flatten(toks)
    if prefix is not None:
        if text and not text.startswith(','):
            raise Unsupported('eline_*: the text appended to a line prefix must start with a comma')
        if '"' in text:
            raise Unsupported('eline_*: quote appended to a line prefix')
    whole = line.t if line.t.sort() == Val else Val.s(line.t)
    return prefix, text, holes, whole


def _piece(ex, st, piece, holes, whole, pos):
    try:
        return ex.box(st, E.piece_to_v(piece, holes))
    except Unsupported:
        return _UNK(whole, pos)


def _concrete_ok(text):
    if text.count('"') % 2:
        return False
    for op, cl in _DELIMS.values():
        try:
            E.between(text, op, cl)
        except Unsupported:
            return False
    return True


@spec('eline_ok')
def eline_ok(ex, st, line):
    prefix, text, holes, whole = _parse(line)
    if prefix is None:
        return v_bool(z3.BoolVal(_concrete_ok(text)))
    ex.ctx.note('ENGINE-LEX law: header fields and items of a line prefix are unchanged by appending ",item" pieces (A-STR-TOK)')
    return v_bool(_OK(prefix))


@spec('eline_field')
def eline_field(ex, st, line, what):
    prefix, text, holes, whole = _parse(line)
    w = what.lit
    op, cl = _DELIMS[w]
    if prefix is None:
        return E.piece_to_v(E.between(text, op, cl), holes)
    return V(z3.If(_OK(prefix), _FLD[w](prefix), _UNKF[w](whole)), ANY)


@spec('eline_n')
def eline_n(ex, st, line):
    prefix, text, holes, whole = _parse(line)
    if prefix is None:
        return v_int(len(text.split(',')))
    return v_int(_N(prefix) + text.count(','))


@spec('eline_item')
def eline_item(ex, st, line, j):
    prefix, text, holes, whole = _parse(line)
    jt = z3.simplify(as_int(j))
    pieces = text.split(',')
    if prefix is None:
        vals = [_piece(ex, st, p, holes, whole, z3.IntVal(k)) for k, p in enumerate(pieces)]
        if z3.is_int_value(jt):
            k = jt.as_long()
            return V(vals[k] if 0 <= k < len(vals) else _UNK(whole, jt), ANY)
        out = _UNK(whole, jt)
        for k in reversed(range(len(vals))):
            out = z3.If(jt == k, vals[k], out)
        return V(out, ANY)
    rest = pieces[1:]           # pieces[0] == '' (the suffix starts with a comma) or the suffix is empty
    n0 = _N(prefix)
    out = _UNK(whole, jt)
    for k in reversed(range(len(rest))):
        out = z3.If(jt == n0 + k, _piece(ex, st, rest[k], holes, whole, n0 + k), out)
    return V(z3.If(z3.And(jt >= 0, jt < n0), _IT(prefix, jt), out), ANY)


# ---- concatenation of a family of lists -------------------------------------------------------------
_CATS: dict = {}


@spec('cat_range')
def cat_range(ex, st, lam, lo, hi):
    if lam.kind != 'py' or lam.py[0] != 'lambda':
        raise Unsupported('cat_range needs a lambda')
    lnode, captured = lam.py[1], lam.py[2]
    free = sorted({n.id for n in ast.walk(lnode.body) if isinstance(n, ast.Name)} - {a.arg for a in lnode.args.args})
    cap_ids = tuple((n, captured[n].t.get_id() if (n in captured and captured[n].t is not None) else None) for n in free)
    heap_ids = tuple(sorted((f, a.get_id()) for f, a in (st.heap0 if st.use_old else st.heap).items()
                            if f not in st.heap0 or not a.eq(st.heap0[f])))
    lo_t, hi_t = as_int(lo), as_int(hi)
    key = (ast.dump(lnode), cap_ids, heap_ids, lo_t.get_id())
    if key not in _CATS:
        _CATS[key] = (z3.Function(fresh_name('CL'), I, I), z3.Function(fresh_name('CE'), I, I, Val))
    CL, CE = _CATS[key]

    def f_at(t):
        v = ex.call(st, lam, [v_int(t)], {}, None)
        n, arr, ety = lib.seq_parts(ex, st, v)
        return n, arr, ety

    mark = ('cat', key)
    ety = ANY
    if mark not in st.ghost:
        st.ghost[mark] = True
        q = z3.Int(fresh_name('q'))
        j = z3.Int(fresh_name('j'))
        st.bound.append((q, q >= lo_t))
        try:
            if st.is_nonneg(lo_t):
                st.mark_nonneg(q)
            nq, aq, ety = f_at(q)
        finally:
            st.bound.pop()
        st.pc.append(CL(lo_t) == 0)
        st.pc.append(z3.ForAll([q], z3.Implies(q >= lo_t, CL(q + 1) == CL(q) + nq), patterns=[CL(q + 1)]))
        st.pc.append(z3.ForAll([q, j], z3.Implies(
            z3.And(q >= lo_t, j >= 0, j < CL(q + 1)),
            CE(q + 1, j) == z3.If(j < CL(q), CE(q, j), z3.Select(aq, j - CL(q)))), patterns=[CE(q + 1, j)]))
        st.pc.append(z3.ForAll([q], z3.Implies(q >= lo_t, CL(q) >= 0), patterns=[CL(q)]))
        ex.ctx.note('LEMMA cat-nonneg: the total length of a concatenation of lists is non-negative (induction on the number of lists)')
    # explicit unfolding at the upper end
    h1 = z3.simplify(hi_t - 1)
    st.guards.append(hi_t > lo_t)
    try:
        n1, a1, ety = f_at(h1)
    finally:
        st.guards.pop()
    j2 = z3.Int(fresh_name('j'))
    st.pc.append(z3.Implies(hi_t > lo_t, CL(hi_t) == CL(h1) + n1))
    st.pc.append(z3.Implies(hi_t > lo_t, z3.ForAll([j2], z3.Implies(
        z3.And(j2 >= 0, j2 < CL(hi_t)),
        CE(hi_t, j2) == z3.If(j2 < CL(h1), CE(h1, j2), z3.Select(a1, j2 - CL(h1)))), patterns=[CE(hi_t, j2)])))
    st.pc.append(z3.Implies(hi_t >= lo_t, CL(hi_t) >= 0))
    j3 = z3.Int(fresh_name('j'))
    n_t = z3.If(hi_t > lo_t, CL(hi_t), z3.IntVal(0))
    return lib.spec_seq(ex, st, n_t, z3.Lambda([j3], CE(hi_t, j3)), ety)


@spec('set_nth')
def set_nth(ex, st, s, q):
    """q-th member of a set in its (arbitrary, fixed) enumeration order: the order `for x in s` uses."""
    if s.kind != 'set':
        raise Unsupported('set_nth: not a set')
    return lib.iter_view(ex, st, s).get(st, as_int(q))
