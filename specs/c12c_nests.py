"""Spec functions for C12 round 2 (agent c12c): finite sets of alternatives, as mathematical set VALUES.

    c12c_members(L)            the set of the elements of the list L:   x in it  <=>  exists j < len(L): L[j] == x
    c12c_nest_members(NS)      the union over the nests of the list NS of their `list_of_alternatives`:
                                   x in it  <=>  exists k < len(NS), j < len(NS[k].list_of_alternatives): that element == x
    c12c_set(s)                the set value of a Python set object (its current members)
    c12c_union / c12c_inter / c12c_minus (a, b)    set algebra on set values
    c12c_set_eq(a, b)          same members;   c12c_is_empty(a);   c12c_subset(a, b);   c12c_has(a, x)
    c12c_obj_is(s, a)          the Python set object s has exactly the members of the set value a

Each "comprehension" set is a constant NAMED AFTER ITS DEFINITION (a hash of the defining terms), constrained by the
two skolemised halves of its definition (every element is a member; every member sits at some position).  The same
construction is used by pyvc/libext/c12c_sets.py for `set(L)` / the two-level unions in the code, so that a set built by
the code and the one named in a contract from the same list contents are the same term.  This is a definitional
(conservative) extension: such a set and such position functions exist for every list.
"""
import hashlib

import z3

from pyvc import lib
from pyvc import vals as VV
from pyvc.specs_runtime import spec
from pyvc.state import Unsupported, pattern_ok
from pyvc.vals import ANY, B, I, V, Val, as_ref, fresh_name, uf, v_bool

DOM = z3.ArraySort(Val, B)


def setval(dom, ety=ANY):
    return V(None, VV.PY, py=('c12cset', dom, ety))


def dom_of(st, s):
    if s.kind == 'py' and s.py and s.py[0] == 'c12cset':
        return s.py[1]
    if s.kind == 'set':
        return st.set_dom(s)
    if s.kind == 'opt' and s.ty.args and s.ty.args[0].kind == 'set':
        return st.set_dom(V(s.t, s.ty.args[0]))
    raise Unsupported(f'c12c: not a set ({s.kind})')


def _fa(vs, body, pats):
    if pats and all(pattern_ok(p) for p in pats):
        try:
            return z3.ForAll(vs, body, patterns=pats)
        except z3.Z3Exception:
            pass
    return z3.ForAll(vs, body)


def _named(prefix, *terms):
    h = hashlib.sha1('|'.join(t.sexpr() for t in terms).encode()).hexdigest()[:20]
    return z3.Const(f'{prefix}!{h}', DOM)


def _add(st, fact):
    if not any(fact.eq(h) for h in st.pc):
        st.pc.append(fact)


def members_dom(st, n, arr):
    """D with  forall j in [0,n): D[arr[j]]   and   forall x: D[x] -> 0 <= at(D,x) < n and arr[at(D,x)] == x"""
    D = _named('c12c.members', n, arr)
    at = uf('c12c.at', DOM, Val, I)
    j = z3.Int('c12c!j')
    x = z3.Const('c12c!x', Val)
    _add(st, _fa([j], z3.Implies(z3.And(j >= 0, j < n), z3.Select(D, z3.Select(arr, j))), [z3.Select(arr, j)]))
    _add(st, _fa([x], z3.Implies(z3.Select(D, x), z3.And(at(D, x) >= 0, at(D, x) < n, z3.Select(arr, at(D, x)) == x)),
                 [z3.Select(D, x)]))
    return D


def members2_dom(st, n, inner):
    """inner(k) -> (m, arr) for a z3 Int k.  D with  forall k in [0,n), j in [0,m(k)): D[arr(k)[j]]  and
    forall x: D[x] -> (k, j) = (atk(D,x), atj(D,x)) in range and arr(k)[j] == x"""
    k, j = z3.Int('c12c!k'), z3.Int('c12c!j')
    x = z3.Const('c12c!x', Val)
    m, arr = inner(k)
    D = _named('c12c.members2', n, m, arr)
    atk = uf('c12c.at_outer', DOM, Val, I)
    atj = uf('c12c.at_inner', DOM, Val, I)
    el = z3.Select(arr, j)
    _add(st, _fa([k, j], z3.Implies(z3.And(k >= 0, k < n, j >= 0, j < m), z3.Select(D, el)), [el]))
    kk, jj = atk(D, x), atj(D, x)
    mk = z3.substitute(m, (k, kk))
    elk = z3.substitute(el, (k, kk), (j, jj))
    _add(st, _fa([x], z3.Implies(z3.Select(D, x), z3.And(kk >= 0, kk < n, jj >= 0, jj < mk, elk == x)), [z3.Select(D, x)]))
    return D


@spec('c12c_members')
def c12c_members(ex, st, lst):
    n, arr, ety = lib.seq_parts(ex, st, lst)
    return setval(members_dom(st, n, arr), ety)


def nest_lists(st, nests, field='list_of_alternatives'):
    """inner(k) for the list-valued field of the k-th member of the list of nests (current heap)"""
    n = st.list_len(nests)
    outer = st.list_elems(nests)
    fld, lens, elems = st.field(field), st.field('$len'), st.field('$elems')

    def inner(k):
        r = Val.rv(z3.Select(fld, Val.rv(z3.Select(outer, k))))
        return z3.Select(lens, r), z3.Select(elems, r)
    return n, inner


@spec('c12c_nest_members')
def c12c_nest_members(ex, st, nests):
    if nests.kind != 'list':
        raise Unsupported('c12c_nest_members: not a list of nests')
    n, inner = nest_lists(st, nests)
    return setval(members2_dom(st, n, inner), VV.INT)


@spec('c12c_set')
def c12c_set(ex, st, s):
    return setval(dom_of(st, s))


@spec('c12c_union')
def c12c_union(ex, st, a, b):
    return setval(z3.SetUnion(dom_of(st, a), dom_of(st, b)))


@spec('c12c_inter')
def c12c_inter(ex, st, a, b):
    return setval(z3.SetIntersect(dom_of(st, a), dom_of(st, b)))


@spec('c12c_minus')
def c12c_minus(ex, st, a, b):
    return setval(z3.SetDifference(dom_of(st, a), dom_of(st, b)))


@spec('c12c_set_eq')
def c12c_set_eq(ex, st, a, b):
    return v_bool(dom_of(st, a) == dom_of(st, b))


@spec('c12c_obj_is')
def c12c_obj_is(ex, st, s, a):
    return v_bool(z3.And(Val.is_ref(s.t) if s.t is not None else z3.BoolVal(True), dom_of(st, s) == dom_of(st, a)))


@spec('c12c_is_empty')
def c12c_is_empty(ex, st, a):
    return v_bool(dom_of(st, a) == z3.EmptySet(Val))


@spec('c12c_subset')
def c12c_subset(ex, st, a, b):
    return v_bool(z3.IsSubset(dom_of(st, a), dom_of(st, b)))


@spec('c12c_has')
def c12c_has(ex, st, a, x):
    return v_bool(z3.Select(dom_of(st, a), ex.box(st, x)))


# ---- element-level statements (integer positions), with explicit instantiation patterns ----------------------
@spec('c12c_covered')
def c12c_covered(ex, st, cs, nests, alone):
    """every alternative of the list cs is in the set `alone` or in the list of some nest:
       forall p < len(cs):  cs[p] in alone  or  exists k < len(nests), j < len(nests[k].list_of_alternatives): that element == cs[p]"""
    n, arr, _ = lib.seq_parts(ex, st, cs)
    nn, inner = nest_lists(st, nests)
    al = dom_of(st, alone)
    p, k, j = z3.Int(fresh_name('p')), z3.Int(fresh_name('k')), z3.Int(fresh_name('j'))
    m, a = inner(k)
    e = z3.Select(arr, p)
    return v_bool(_fa([p], z3.Implies(z3.And(p >= 0, p < n),
                                      z3.Or(z3.Select(al, e),
                                            z3.Exists([k, j], z3.And(k >= 0, k < nn, j >= 0, j < m, z3.Select(a, j) == e)))), [e]))


@spec('c12c_inside')
def c12c_inside(ex, st, cs, nests):
    """every alternative of every nest is in the list cs:
       forall k < len(nests), j < len(nests[k].list_of_alternatives):  exists p < len(cs): cs[p] == that element"""
    n, arr, _ = lib.seq_parts(ex, st, cs)
    nn, inner = nest_lists(st, nests)
    p, k, j = z3.Int(fresh_name('p')), z3.Int(fresh_name('k')), z3.Int(fresh_name('j'))
    m, a = inner(k)
    e = z3.Select(a, j)
    return v_bool(_fa([k, j], z3.Implies(z3.And(k >= 0, k < nn, j >= 0, j < m),
                                         z3.Exists([p], z3.And(p >= 0, p < n, z3.Select(arr, p) == e))), [e]))


@spec('c12c_set_inside')
def c12c_set_inside(ex, st, s, cs):
    """every member of the set s is in the list cs:  forall x: x in s -> exists p < len(cs): cs[p] == x"""
    n, arr, _ = lib.seq_parts(ex, st, cs)
    d = dom_of(st, s)
    p = z3.Int(fresh_name('p'))
    x = z3.Const(fresh_name('x'), Val)
    return v_bool(_fa([x], z3.Implies(z3.Select(d, x), z3.Exists([p], z3.And(p >= 0, p < n, z3.Select(arr, p) == x))),
                      [z3.Select(d, x)]))


# ---- names collected by dict_of_elementary_expression ---------------------------------------------------------
def _any_dom(st, s):
    if s.kind == 'py' and s.py and s.py[0] == 'c12set':        # set values of specs/c12_audit.py
        return s.py[1]
    if s.kind == 'dict':
        return st.read(as_ref(s), '$dom')
    return dom_of(st, s)


@spec('c12c_keys_are')
def c12c_keys_are(ex, st, d, a):
    """the dictionary d has exactly the keys of the set value a"""
    if d.kind == 'none':        # (m5) `return None`: the clause is false, not out of subset
        return v_bool(z3.BoolVal(False))
    if d.kind != 'dict':
        raise Unsupported(f'c12c_keys_are: not a dict ({d.kind})')
    return v_bool(st.read(as_ref(d), '$dom') == _any_dom(st, a))


def union_of_doms(st, n, dom_at, key):
    """D with  forall k in [0,n), x: dom_at(k)[x] -> D[x]   and   forall x: D[x] -> 0 <= at(D,x) < n and dom_at(at(D,x))[x]"""
    k = z3.Int('c12c!k')
    x = z3.Const('c12c!x', Val)
    dk = dom_at(k)
    D = _named('c12c.union', n, dk, *key)
    at = uf('c12c.at_outer', DOM, Val, I)
    _add(st, _fa([k, x], z3.Implies(z3.And(k >= 0, k < n, z3.Select(dk, x)), z3.Select(D, x)), [z3.Select(dk, x)]))
    da = z3.substitute(dk, (k, at(D, x)))
    _add(st, _fa([x], z3.Implies(z3.Select(D, x), z3.And(at(D, x) >= 0, at(D, x) < n, z3.Select(da, x))), [z3.Select(D, x)]))
    return D


@spec('c12c_union_names')
def c12c_union_names(ex, st, children, the_type):
    """{x | exists k < len(children): x in names_of_type(children[k], the_type)}   (names_of_type: specs/c12_audit.py)"""
    if children.kind != 'list':
        raise Unsupported('c12c_union_names: not a list')
    n, arr = st.list_len(children), st.list_elems(children)
    f = uf('C12.names_of_type', Val, Val, DOM)
    tt = ex.box(st, the_type)
    return setval(union_of_doms(st, n, lambda k: f(z3.Select(arr, k), tt), ()))


@spec('c12c_verdict_is')
def c12c_verdict_is(ex, st, res, expected):
    """(m5, round 3) the first component of the returned (verdict, message) pair is the boolean `expected`;
    false when the function returns None instead of a pair (so that such a body FAILS its contract instead of leaving the subset)."""
    if res.kind == 'none':
        return v_bool(z3.BoolVal(False))
    if res.kind != 'tuple':
        raise Unsupported(f'c12c_verdict_is: not a pair ({res.kind})')
    if res.items is not None:
        first = res.items[0]
    else:
        first = V(Val.hd(res.t), res.ty.args[0] if res.ty.args else ANY)
    return v_bool(VV.as_bool_raw(first) == VV.as_bool_raw(expected))


@spec('c12c_maps_to')
def c12c_maps_to(ex, st, d, key, value):
    """(m5, round 3) the returned dictionary maps `key` to the object `value`; false when the body returns None"""
    if d.kind == 'none':
        return v_bool(z3.BoolVal(False))
    if d.kind != 'dict':
        raise Unsupported(f'c12c_maps_to: not a dict ({d.kind})')
    return v_bool(z3.And(st.dict_has(d, key), st.dict_get(d, key).t == ex.box(st, value)))
