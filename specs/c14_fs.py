"""C14 spec functions over the ghost file system (see pyvc/libext/c14_fs.py).

fs_is_file(s): a regular file named s exists -- in the final state, or in the entry state inside old(...).
fs_was_file(s): a regular file named s (s evaluated in the final state) existed at entry.
fs_existed(s):  something named s (s evaluated in the final state) existed at entry.
fs_exists(s):  something named s exists (what os.path.exists(s) returns).
"""
from pyvc.specs_runtime import spec
from pyvc.vals import as_atom, v_bool
from pyvc.libext import c14_fs


@spec('fs_is_file')
def _fs_is_file(ex, st, s):
    return v_bool(c14_fs.fs_is_file(st, as_atom(s)))


@spec('fs_exists')
def _fs_exists(ex, st, s):
    return v_bool(c14_fs.fs_exists(st, as_atom(s)))


@spec('fs_was_file')
def _fs_was_file(ex, st, s):
    return v_bool(c14_fs.fs_was_file(as_atom(s)))


@spec('fs_existed')
def _fs_existed(ex, st, s):
    import z3
    a = as_atom(s)
    return v_bool(z3.Or(c14_fs.fs_was_file(a), c14_fs.VV.uf('c14_fs_exists', c14_fs.I, c14_fs.B)(a)))
