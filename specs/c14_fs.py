"""C14 spec functions over the ghost file system (see pyvc/libext/c14_fs.py).

fs_is_file(s): a regular file named s exists -- in the final state, or in the entry state inside old(...).
fs_was_file(s): a regular file named s (s evaluated in the final state) existed at entry.
fs_existed(s):  something named s (s evaluated in the final state) existed at entry.
fs_exists(s):  something named s exists (what os.path.exists(s) returns).
fs_content(s): content (a string) of the file named s -- final state, or entry state inside old(...).
fs_pickled(o):  the uninterpreted image pickle.dump writes for the object o;  fs_csv(frame): what frame.to_csv writes.
"""
from pyvc.specs_runtime import spec
from pyvc.vals import as_atom, v_bool
from pyvc.libext import c14_fs


@spec('fs_is_file')
def _fs_is_file(ex, st, s):
    return v_bool(c14_fs.fs_is_file(st, as_atom(s)))


@spec('fs_exists')
def _fs_exists(ex, st, s):
    return v_bool(c14_fs.fs_exists(st, as_atom(s)))


@spec('fs_was_file')
def _fs_was_file(ex, st, s):
    return v_bool(c14_fs.fs_was_file(as_atom(s)))


@spec('fs_existed')
def _fs_existed(ex, st, s):
    import z3
    a = as_atom(s)
    return v_bool(z3.Or(c14_fs.fs_was_file(a), c14_fs.VV.uf('c14_fs_exists', c14_fs.I, c14_fs.B)(a)))


@spec('fs_content')
def _fs_content(ex, st, s):
    import z3
    from pyvc import vals as VV
    return VV.V(VV.Val.s(z3.Select(c14_fs.ct_now(st), as_atom(s))), VV.STR)


@spec('fs_pickled')
def _fs_pickled(ex, st, o):
    from pyvc import vals as VV
    return VV.V(VV.Val.s(c14_fs.pickled_atom(ex, st, o)), VV.STR)


@spec('fs_csv')
def _fs_csv(ex, st, o):
    from pyvc import vals as VV
    return VV.V(VV.Val.s(c14_fs.csv_atom(ex, st, o)), VV.STR)
