"""Spec functions for C12 round 2 (agent c12c): observers of the assumed pandas model of the data audit
(pyvc/libext/c12c_pandas.py).

    c12c_ncols(df)               number of columns of the frame
    c12c_col_numeric(df, j)      np.issubdtype(dtype of column j, np.number)
    c12c_has_null(df)            df.isnull().values.any()
    c12c_nonnumeric_upto(df, k)  number of non-numeric columns among the first k:
                                 N(df, 0) = 0,  N(df, k+1) = N(df, k) + (0 if column k is numeric else 1)
"""
import z3

from pyvc.libext import c12c_pandas as PD
from pyvc.specs_runtime import spec
from pyvc.vals import I, as_int, as_ref, fresh_name, uf, v_bool, v_int


def _df(df):
    return as_ref(df)


@spec('c12c_ncols')
def c12c_ncols(ex, st, df):
    n, _ = PD.columns_of(_df(df))
    st.assume(n >= 0)
    return v_int(n)


def _numeric(r, j):
    return PD.is_number_dtype(z3.Select(PD.dtypes_of(r), j))


@spec('c12c_col_numeric')
def c12c_col_numeric(ex, st, df, j):
    return v_bool(_numeric(_df(df), as_int(j)))


@spec('c12c_has_null')
def c12c_has_null(ex, st, df):
    return v_bool(PD.has_null(_df(df)))


@spec('c12c_nonnumeric_upto')
def c12c_nonnumeric_upto(ex, st, df, k):
    r, kt = _df(df), as_int(k)
    S = uf('c12c.nonnumeric_upto', I, I, I)
    q = z3.Int(fresh_name('q'))
    step = lambda t: z3.If(_numeric(r, t), 0, 1)
    st.assume(S(r, z3.IntVal(0)) == 0)
    ax = z3.ForAll([q], z3.Implies(q >= 0, z3.And(S(r, q + 1) == S(r, q) + step(q), S(r, q) >= 0)), patterns=[S(r, q + 1)])
    if not any(ax.eq(h) for h in st.pc[-80:]):
        st.pc.append(ax)
    st.assume(z3.Implies(kt > 0, S(r, kt) == S(r, kt - 1) + step(kt - 1)))
    st.assume(z3.Implies(kt >= 0, S(r, kt) >= 0))
    return v_int(S(r, kt))


@spec('c12c_evaluation_refuses')
def c12c_evaluation_refuses(ex, st, e, db):
    """does the compiled evaluation of the formula e on the database db refuse (uninterpreted)"""
    from pyvc.vals import B, Val
    return v_bool(uf('c12c.evaluation_refuses', Val, Val, B)(ex.box(st, e), ex.box(st, db)))


@spec('c12c_formula')
def c12c_formula(ex, st, d, q):
    """the q-th value of a dictionary of formulas, in iteration order: d[keys(d)[q]] (no lambda: the key list is read directly)"""
    from pyvc.state import Unsupported
    from pyvc.vals import ANY, V
    if d.kind != 'dict':
        raise Unsupported('c12c_formula: not a dict')
    r = as_ref(d)
    key = z3.Select(st.read(r, '$elems'), as_int(q))
    vty = d.ty.args[1] if len(d.ty.args) == 2 else ANY
    return V(z3.Select(st.read(r, '$map'), key), vty)


def _misplaced(kind):
    """Boolean observer `the formula e has a draw (kind 'draws') / a random variable (kind 'rv') outside its operator`,
    DEFINED as: the set that check_draws / check_rv returns on e (specs/c12_audit.py: draws_out / rv_out) is not empty.
    The definition is stated for the argument at hand (closed over the enclosing binders), so that invariants carry one
    boolean atom per formula instead of a nested quantifier."""
    from pyvc.vals import B, Val
    from specs.c12_audit import KINDS, DOM

    def f(ex, st, e):
        et = ex.box(st, e)
        has = uf('c12c.misplaced_' + kind, Val, B)(et)
        x = z3.Const(fresh_name('x'), Val)
        st.assume(has == z3.Exists([x], z3.Select(uf(KINDS[kind], Val, DOM)(et), x)))
        return v_bool(has)
    return f


spec('c12c_misplaced_draws')(_misplaced('draws'))
spec('c12c_misplaced_rv')(_misplaced('rv'))


@spec('c12c_includes')
def c12c_includes(ex, st, big, small):
    """every element of the sequence `small` occurs in the sequence `big` (c12_includes with an instantiation pattern)"""
    from pyvc import lib
    from pyvc.state import pattern_ok
    bn, ba, _ = lib.seq_parts(ex, st, big)
    sn, sa, _ = lib.seq_parts(ex, st, small)
    j, i = z3.Int(fresh_name('j')), z3.Int(fresh_name('i'))
    body = z3.Implies(z3.And(j >= 0, j < sn), z3.Exists([i], z3.And(i >= 0, i < bn, z3.Select(ba, i) == z3.Select(sa, j))))
    if pattern_ok(z3.Select(sa, j)):
        try:
            return v_bool(z3.ForAll([j], body, patterns=[z3.Select(sa, j)]))
        except z3.Z3Exception:
            pass
    return v_bool(z3.ForAll([j], body))


def _forall(vs, body, pat):
    from pyvc.state import pattern_ok
    if pattern_ok(pat):
        try:
            return z3.ForAll(vs, body, patterns=[pat])
        except z3.Z3Exception:
            pass
    return z3.ForAll(vs, body)


# ---- BIOGEME._audit: where the errors of each formula sit in the collected list ---------------------------------
def _audit_terms(ex, st, d, db):
    from pyvc.vals import B, Val
    from specs.c12_audit import SEQ
    r = as_ref(d)
    # the dictionary of formulas AS IT WAS WHEN THE FUNCTION WAS ENTERED (modifies=[]: the frame obligations show it is never changed)
    st.field('$elems'), st.field('$map')
    keys, mp = z3.Select(st.heap0['$elems'], r), z3.Select(st.heap0['$map'], r)
    dt = ex.box(st, db)
    F = lambda q: z3.Select(mp, z3.Select(keys, q))
    flag = lambda name, q: z3.If(uf('c12c.misplaced_' + name, Val, B)(F(q)), 1, 0)
    nerr = lambda q: uf('C12.err_len', Val, Val, I)(F(q), dt)
    earr = lambda q: uf('C12.err_arr', Val, Val, SEQ)(F(q), dt)
    S = uf('c12c.audit_upto', keys.sort(), mp.sort(), Val, I, I)
    N = lambda q: S(keys, mp, dt, q)
    return F, flag, nerr, earr, N


@spec('c12c_audit_upto')
def c12c_audit_upto(ex, st, d, db, k):
    """number of errors BIOGEME._audit has collected after the first k formulas of the dictionary d:
       N(0) = 0,  N(q+1) = N(q) + [misplaced draws in formula q] + [misplaced random variable in formula q] + aud_nerr(formula q, db)"""
    F, flag, nerr, earr, N = _audit_terms(ex, st, d, db)
    kt = as_int(k)
    q = z3.Int(fresh_name('q'))
    step = lambda t: flag('draws', t) + flag('rv', t) + nerr(t)
    st.assume(N(z3.IntVal(0)) == 0)
    ax = _forall([q], z3.Implies(q >= 0, z3.And(N(q + 1) == N(q) + step(q), nerr(q) >= 0, N(q) >= 0)), N(q + 1))
    if not any(ax.eq(h) for h in st.pc[-80:]):
        st.pc.append(ax)
    st.assume(z3.Implies(kt > 0, z3.And(N(kt) == N(kt - 1) + step(kt - 1), nerr(kt - 1) >= 0, N(kt - 1) >= 0)))
    # definition of the two boolean observers (see _misplaced) at the formula just audited
    from pyvc.vals import B, Val
    from specs.c12_audit import KINDS, DOM
    x = z3.Const(fresh_name('x'), Val)
    for kind in ('draws', 'rv'):
        ft = F(kt - 1)
        st.assume(uf('c12c.misplaced_' + kind, Val, B)(ft) == z3.Exists([x], z3.Select(uf(KINDS[kind], Val, DOM)(ft), x)))
    return v_int(N(kt))


@spec('c12c_audit_in_order')
def c12c_audit_in_order(ex, st, lst, d, db, K):
    """the errors of the audit of each of the first K formulas sit in `lst`, one formula after the other, after the (at most two)
       placement errors of that formula:   forall q < K, j < aud_nerr(formula q):  lst[N(q+1) - aud_nerr(formula q) + j] == aud_err(formula q)[j]"""
    from pyvc import lib
    ln, la, _ = lib.seq_parts(ex, st, lst)
    F, flag, nerr, earr, N = _audit_terms(ex, st, d, db)
    c12c_audit_upto(ex, st, d, db, K)
    Kt = as_int(K)
    q, j = z3.Int(fresh_name('q')), z3.Int(fresh_name('j'))
    off = N(q + 1) - nerr(q)        # = N(q) + the placement errors of formula q
    bounded = _forall([q], z3.Implies(z3.And(q >= 0, q < Kt), z3.And(N(q + 1) <= ln, N(q + 1) == N(q) + flag('draws', q) + flag('rv', q) + nerr(q),
                                                                     nerr(q) >= 0, N(q) >= 0)), N(q + 1))
    placed = _forall([q, j], z3.Implies(z3.And(q >= 0, q < Kt, j >= 0, j < nerr(q)), z3.Select(la, off + j) == z3.Select(earr(q), j)),
                     z3.Select(earr(q), j))
    return v_bool(z3.And(bounded, placed))
