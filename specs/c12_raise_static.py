"""C12 static obligation: faults are reported with an exception, never by `raise <string>`.

`raise error_msg` with a string raises `TypeError: exceptions must derive from BaseException` - the fault is then NOT
"rejected with the library's own error type and an explanatory message" (the message is lost).  For every `raise` statement
of the package the raised expression is classified:
    string literal / f-string, or a local name all of whose bindings in the enclosing function are string expressions
        -> failed (one obligation per site);
    anything else (call of a class, an `except ... as e` variable, a name bound by a call) -> fine.
One summary obligation counts the raise statements inspected (vacuity guard).
"""
import ast
import time


def _is_str_expr(e) -> bool:
    if isinstance(e, ast.Constant):
        return isinstance(e.value, str)
    if isinstance(e, ast.JoinedStr):
        return True
    if isinstance(e, ast.BinOp) and isinstance(e.op, (ast.Add, ast.Mod)):
        return _is_str_expr(e.left)
    if isinstance(e, ast.Call) and isinstance(e.func, ast.Attribute) and e.func.attr in ('format', 'join'):
        return _is_str_expr(e.func.value)
    return False


def raise_sites():
    from pyvc.driver import Extra
    from pyvc.repo import get_repo
    repo = get_repo()
    t0 = time.time()
    out, n, seen = [], 0, {}
    for mname, mi in sorted(repo.modules.items()):
        funcs = [f for f in ast.walk(mi.tree) if isinstance(f, (ast.FunctionDef, ast.AsyncFunctionDef))]
        for fn in funcs:
            own = [x for x in ast.walk(fn)]
            handlers = {h.name for h in own if isinstance(h, ast.ExceptHandler) and h.name}
            for r in own:
                if not isinstance(r, ast.Raise) or r.exc is None:
                    continue
                n += 1
                e = r.exc
                bad = None
                if _is_str_expr(e):
                    bad = 'a string expression'
                elif isinstance(e, ast.Name) and e.id not in handlers:
                    binds = [a.value for a in own if isinstance(a, ast.Assign) and any(isinstance(t, ast.Name) and t.id == e.id for t in a.targets)]
                    binds += [a.value for a in own if isinstance(a, ast.AnnAssign) and isinstance(a.target, ast.Name) and a.target.id == e.id and a.value is not None]
                    if binds and all(_is_str_expr(b) for b in binds):
                        bad = f'the local `{e.id}`, bound only to string expressions'
                if bad:
                    key = f'{mname}.{fn.name}:{e.id if isinstance(e, ast.Name) else "literal"}'
                    seen[key] = seen.get(key, 0) + 1
                    key += '' if seen[key] == 1 else f'#{seen[key]}'
                    out.append(Extra(f'C12:static:raise-of-a-string:{key}', 'static',
                                     'failed', 'ast-static', round(time.time() - t0, 4),
                                     f'{mi.file}:{r.lineno}: `{ast.unparse(r)[:80]}` raises {bad}: TypeError at run time, the explanatory '
                                     f'message and the library error type are lost',
                                     {'file': mi.file, 'line': r.lineno, 'function': fn.name}))
    out.append(Extra('C12:static:raise-statements-raise-exceptions', 'static', 'discharged' if n > 50 and not out else ('failed' if out else 'unknown'),
                     'ast-static', round(time.time() - t0, 4), f'{n} raise statements inspected, {len(out)} raise a string'))
    return out
