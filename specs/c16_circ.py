"""C16 spec function  circ(c, s, n) := (c + s) mod n   (n >= 1): the index reached from c by a circular move of s.

Opaque-definition device: z3 handles `mod` with a symbolic modulus through non-linear arithmetic, which makes
obligations that merely have to *carry* such a term through quantified heap facts time out (measured: 1 seed in 7
within 10 s; with the term abstracted 0.04 s on every seed).  So `circ` is TRANSPARENT (the mod term itself) only
while verifying Controller.modify_controller, where the definition is what is proved, and an uninterpreted function
symbol everywhere else (call sites of modify_controller and the operators of CentralController).  Leaving a true
definitional equation out of a proof is sound.  Its algebra (range, increase-then-decrease) is the subject of the
lemmas in props/C16.py, stated on the definition.
"""
from pyvc.specs_runtime import spec


@spec('circ')
def circ(ex, st, c, s, n):
    from pyvc.vals import I, as_int, uf, v_int
    ci, si, ni = as_int(c), as_int(s), as_int(n)
    if 'Controller.modify_controller' in (getattr(ex.ctx, 'fn_label', '') or ''):
        return v_int((ci + si) % ni)
    return v_int(uf('c16!circ', I, I, I, I)(ci, si, ni))
