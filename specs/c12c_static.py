"""Static obligations of C12 round 2 (agent c12c): decided by an AST analysis of the real source (pyvc.repo; biogeme is never
imported).  Called from props/C12.py extra().

  C12:static:names-every-node-class-covered      every node class either inherits Expression.dict_of_elementary_expression and belongs
                                                 to a family for which that body is verified, or its override has a verified contract
                                                 (exception, listed: bioLinearUtility -> bounded harness)
  C12:static:cnl-check_validity-returns-union-verdict   NestsForCrossNestedLogit.check_validity hands back, unmodified, the verdict of
                                                 check_union (whose bi-implication is a discharged contract)
  C12:static:IdManager.prepare-duplicate-rule    the merged list of names is the concatenation of the five name lists, the only `raise`
                                                 of prepare is BiogemeError guarded by len(L) != len(set(L)) at top level, before the
                                                 names are numbered; each name list is built from EVERY formula of self.expressions
"""
import ast
import time


def _extra(name, t0, bad, detail):
    from pyvc.driver import Extra
    return Extra(name, 'static', 'failed' if bad else 'discharged', 'ast-static', round(time.time() - t0, 3),
                 f'{detail}; problems: {bad[:6]}', {'problems': bad} if bad else None)


def _body(fi):
    b = fi.node.body
    if b and isinstance(b[0], ast.Expr) and isinstance(b[0].value, ast.Constant) and isinstance(b[0].value.value, str):
        return b[1:]
    return b


BOUNDED_NAME_OVERRIDES = ('bioLinearUtility',)


def names_dispatch():
    from pyvc.contract import REGISTRY
    from pyvc.repo import get_repo
    t0 = time.time()
    repo = get_repo()
    meth = 'dict_of_elementary_expression'
    baseq = 'biogeme.expressions.base_expressions.Expression.' + meth
    base = repo.function(baseq)
    variants = {k.split('@')[1]: c for k, c in REGISTRY.contracts.items() if k.startswith(baseq + '@')}
    bad, n, listed = [], 0, []
    if base is None:
        bad.append('base method not found')
    for c in repo.subclasses('Expression'):
        fi = repo.resolve_method(c.name, meth, c.module)
        n += 1
        if fi is None:
            bad.append(f'{c.name}.{meth}: not resolved')
        elif fi is base:
            if c.name == 'Expression':
                continue
            if not any((v == c.name) or (not con.exact_self and repo.is_subclass(c.name, v)) for v, con in variants.items()
                       if con.verify and 'C12' in con.props):
                bad.append(f'{c.name} inherits Expression.{meth} but no verified variant covers it')
        else:
            con = REGISTRY.contracts.get(fi.qualname)
            if con is None or not con.verify or 'C12' not in con.props:
                if fi.cls in BOUNDED_NAME_OVERRIDES:
                    listed.append(fi.cls)
                    continue
                bad.append(f'override {fi.qualname} has no verified C12 contract')
    return _extra('C12:static:names-every-node-class-covered', t0, bad,
                  f'{n} node classes resolved; overrides left to the bounded harness: {sorted(set(listed))}')


def cnl_validity():
    from pyvc.repo import get_repo
    t0 = time.time()
    fi = get_repo().function('biogeme.nests.NestsForCrossNestedLogit.check_validity')
    bad = []
    if fi is None:
        return _extra('C12:static:cnl-check_validity-returns-union-verdict', t0, ['function not found'], '')
    body = _body(fi)
    first = ast.unparse(body[0]) if body else ''
    if first.replace('(ok, message)', 'ok, message') != 'ok, message = self.check_union()':
        bad.append(f'first statement is `{first}`, not `ok, message = self.check_union()`')
    stores = [n.lineno for s in body[1:] for n in ast.walk(s) if isinstance(n, ast.Name) and n.id == 'ok' and isinstance(n.ctx, (ast.Store, ast.Del))]
    if stores:
        bad.append(f'`ok` is rebound at line(s) {stores}')
    rets = [n for s in body for n in ast.walk(s) if isinstance(n, ast.Return)]
    if len(rets) != 1 or not body or body[-1] is not rets[0]:
        bad.append(f'{len(rets)} return statements (expected exactly one, the last statement)')
    for r in rets:
        v = r.value
        if not (isinstance(v, ast.Tuple) and len(v.elts) == 2 and isinstance(v.elts[0], ast.Name) and v.elts[0].id == 'ok'):
            bad.append(f'line {r.lineno}: returns `{ast.unparse(v) if v is not None else None}`, first component is not `ok`')
    raises = [n.lineno for s in body for n in ast.walk(s) if isinstance(n, ast.Raise)]
    if raises:
        bad.append(f'raise statement(s) at line(s) {raises}')
    return _extra('C12:static:cnl-check_validity-returns-union-verdict', t0, bad,
                  f'{len(body)} statements inspected (the verdict of Nests.check_union is under contract: accepted IFF nests and alone cover exactly the choice set)')


FIVE = ['self.free_betas.names', 'self.fixed_betas.names', 'self.random_variables.names', 'self.draws.names', 'self.variables.names']
BUILT_FROM = {'free_betas': 'FREE_BETA', 'fixed_betas': 'FIXED_BETA', 'random_variables': 'RANDOM_VARIABLE', 'draws': 'DRAWS'}


def _flatten_add(e):
    if isinstance(e, ast.BinOp) and isinstance(e.op, ast.Add):
        return _flatten_add(e.left) + _flatten_add(e.right)
    return [ast.unparse(e)]


def duplicate_rule():
    from pyvc.repo import get_repo
    t0 = time.time()
    name = 'C12:static:IdManager.prepare-duplicate-rule'
    fi = get_repo().function('biogeme.expressions.idmanager.IdManager.prepare')
    if fi is None:
        return _extra(name, t0, ['function not found'], '')
    body = _body(fi)
    bad = []
    L = 'elementary_expressions_names'
    # 1. the merged list
    merges = [(i, s) for i, s in enumerate(body) if isinstance(s, ast.Assign) and len(s.targets) == 1 and ast.unparse(s.targets[0]) == L]
    if len(merges) != 1:
        bad.append(f'`{L}` is assigned {len(merges)} times at top level (expected once)')
        return _extra(name, t0, bad, '')
    i_merge, merge = merges[0]
    parts = _flatten_add(merge.value)
    if sorted(parts) != sorted(FIVE):
        bad.append(f'merged list is {parts}, expected the five name lists {FIVE}')
    rebinds = [n.lineno for s in body for n in ast.walk(s) if isinstance(n, ast.Name) and n.id == L and isinstance(n.ctx, (ast.Store, ast.Del))]
    if len(rebinds) != 1:
        bad.append(f'`{L}` is bound at lines {rebinds}')
    # 2. the guard and the raise
    guards = [(i, s) for i, s in enumerate(body) if isinstance(s, ast.If) and ast.unparse(s.test) in
              (f'len({L}) != len(set({L}))', f'len(set({L})) != len({L})')]
    if len(guards) != 1:
        bad.append(f'{len(guards)} top-level statements `if len({L}) != len(set({L})):` (expected one)')
    else:
        i_guard, guard = guards[0]
        last = guard.body[-1] if guard.body else None
        if not (isinstance(last, ast.Raise) and last.exc is not None and ast.unparse(last.exc).startswith('BiogemeError(')):
            bad.append('the guarded block does not end with `raise BiogemeError(...)`')
        if guard.orelse:
            bad.append('the guard has an else branch')
        if i_guard < i_merge:
            bad.append('the guard precedes the merge')
        between = [ast.unparse(s)[:60] for s in body[i_merge + 1:i_guard]]
        if between:
            bad.append(f'statements between the merge and the guard: {between}')
        later = [j for j, s in enumerate(body) if j < i_guard and any(
            isinstance(n, ast.Attribute) and n.attr == 'elementary_expressions' and isinstance(n.ctx, ast.Store) for n in ast.walk(s))]
        if later:
            bad.append('self.elementary_expressions is assigned before the guard')
    raises = [n for s in body for n in ast.walk(s) if isinstance(n, ast.Raise)]
    if len(raises) != 1:
        bad.append(f'{len(raises)} raise statements in prepare (expected exactly the duplicate-name refusal)')
    # 3. every name list is built from every formula
    for fld, kind in BUILT_FROM.items():
        assigns = [i for i, s in enumerate(body) if isinstance(s, ast.Assign) and len(s.targets) == 1
                   and ast.unparse(s.targets[0]) == f'self.{fld}' and ast.unparse(s.value) == 'expressions_names_indices(expr)']
        if len(assigns) != 1:
            bad.append(f'self.{fld} = expressions_names_indices(expr): found {len(assigns)} times')
            continue
        i = assigns[0]
        loop = body[i - 1] if i >= 1 else None
        init = body[i - 2] if i >= 2 else None
        ok_loop = (isinstance(loop, ast.For) and ast.unparse(loop.iter) == 'self.expressions' and not loop.orelse
                   and len(loop.body) == 2
                   and ast.unparse(loop.body[0]).replace(' ', '') == f'd={ast.unparse(loop.target)}.dict_of_elementary_expression(the_type=TypeOfElementaryExpression.{kind})'
                   and ast.unparse(loop.body[1]) == 'expr = dict(expr, **d)')
        if not ok_loop:
            bad.append(f'self.{fld}: not preceded by the loop merging dict_of_elementary_expression({kind}) of every formula of self.expressions')
        if not (isinstance(init, ast.Assign) and ast.unparse(init) == 'expr = {}'):
            bad.append(f'self.{fld}: the accumulator is not reset to {{}} before the loop')
    cols = [s for s in ast.walk(fi.node) if isinstance(s, ast.Assign) and ast.unparse(s.targets[0]) == 'variables_names'
            and ast.unparse(s.value) == 'self.database.data.columns.to_list()']
    if len(cols) != 1:
        bad.append('variables_names = self.database.data.columns.to_list() not found exactly once')
    return _extra(name, t0, bad,
                  'merge of the five name lists, single top-level guard len(L) != len(set(L)) -> raise BiogemeError before the numbering, '
                  'each list built from every formula (expressions_names_indices: names = sorted keys, verified under C03)')
