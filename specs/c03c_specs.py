"""Spec functions of the C03 round-2 contracts (tag c03c)."""
import z3

from pyvc.specs_runtime import spec
from pyvc.vals import Val, as_ref, fresh_name, v_bool


@spec('c03c_allocated')
def c03c_allocated(ex, st, obj):
    """the object exists in the current state (its reference is below the allocation pointer), hence it differs from
    every object created later (the loop rule does not assume this for the elements of a list grown in the loop)"""
    b = ex.box(st, obj)
    r = Val.rv(b)
    return v_bool(z3.And(Val.is_ref(b), r >= 0, r < st.alloc))


@spec('c03c_only_list_changed')
def c03c_only_list_changed(ex, st, *lists):
    """frame for list contents: every list that existed at entry, other than the given ones, has the elements and
    the length it had at entry (used with `*.$elems` in `modifies`, which the frame syntax cannot restrict to one list)"""
    r = z3.Int(fresh_name('r'))
    excl = [r != as_ref(l) for l in lists]
    facts = []
    for f in ('$elems', '$len'):
        cur = st.field(f)
        old = st.heap0.get(f)
        if old is None:
            old = z3.Const(f'H0!{f}', cur.sort())
        if cur.eq(old):
            continue
        facts.append(z3.ForAll([r], z3.Implies(z3.And(r >= 0, r < st.alloc0, *excl), z3.Select(cur, r) == z3.Select(old, r))))
    return v_bool(z3.And(*facts) if facts else z3.BoolVal(True))
