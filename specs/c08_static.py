"""C08 static obligations: label -> quantity in the pandas-based tabular views of results.py, decided on the real AST
(pyvc.repo; biogeme is not imported).  Imported by props/C08.py only (registers no spec function).

One obligation per label of every table.  The quantity a cell expression denotes is *classified* from its shape
(after replacing locals that are assigned exactly once by their defining expression):

    attribute of the row's parameter   b.robust_stdErr                          -> ('attr', 'robust_stdErr')
    position of the pairwise record    v[6]                                     -> ('pos', 6)
    entry of a family matrix           self.data.robust_varCovar[i, j]          -> ('mat', 'robust_varCovar', 'i', 'j')
    pairwise t statistic               self._calculate_test(i, j, self.data.M)  -> ('ttest', 'M', 'i', 'j')
    its p-value                        calc_p_value(<t>)                        -> ('pval', <class of t>)

Verdict per label: `discharged` when the class is the one the label names; `failed` when the expression is positively
classified as ANOTHER quantity (a mix-up); `unknown` (run undecided, never green, never a violation) when the expression
has a shape this analysis does not classify -- the bounded stand-in bounded/c08_tables.py then remains the only judge.
A table whose construction is no longer found at all is `unknown` as well.
"""
from __future__ import annotations

import ast

R = 'biogeme.results'
OK, BAD, UNK = 'discharged', 'failed', 'unknown'


# ------------------------------------------------------------------------------------------------
# helpers
# ------------------------------------------------------------------------------------------------
def _func(repo, cls, name):
    mi = repo.modules.get(R)
    if mi is None:
        return None
    if cls is None:
        fi = mi.functions.get(name)
    else:
        ci = mi.classes.get(cls)
        fi = ci.methods.get(name) if ci else None
    return fi.node if fi else None


def _slug(label):
    return ''.join(ch if (ch.isalnum() or ch in '.-()[]:') else '_' for ch in label).strip('_')


def label_text(node):
    """string constant / f-string -> (text with holes as {}, list of hole expressions); None if not a string"""
    if isinstance(node, ast.Constant) and isinstance(node.value, str):
        return node.value, []
    if isinstance(node, ast.JoinedStr):
        txt, holes = '', []
        for p in node.values:
            if isinstance(p, ast.Constant):
                txt += str(p.value)
            else:
                txt += '{}'
                holes.append(p.value)
        return txt, holes
    if isinstance(node, ast.BinOp) and isinstance(node.op, ast.Add):          # "<expr>" + ' (std)'
        parts = []
        for side in (node.left, node.right):
            lt = label_text(side)
            parts.append(lt if lt is not None else ('{}', [side]))
        return parts[0][0] + parts[1][0], parts[0][1] + parts[1][1]
    return None


class Locals:
    """names assigned exactly once in the function (plain `name = expr`), excluding parameters and loop targets"""

    def __init__(self, fn):
        counts, value = {}, {}
        for n in ast.walk(fn):
            if isinstance(n, ast.Assign):
                for t in n.targets:
                    for e in (t.elts if isinstance(t, (ast.Tuple, ast.List)) else [t]):
                        if isinstance(e, ast.Name):
                            counts[e.id] = counts.get(e.id, 0) + (1 if len(n.targets) == 1 and e is t else 2)
                            value[e.id] = n.value
            elif isinstance(n, (ast.AugAssign, ast.AnnAssign)) and isinstance(n.target, ast.Name):
                counts[n.target.id] = counts.get(n.target.id, 0) + 2
            elif isinstance(n, (ast.For, ast.comprehension)):
                for e in ast.walk(n.target):
                    if isinstance(e, ast.Name):
                        counts[e.id] = counts.get(e.id, 0) + 2
            elif isinstance(n, ast.NamedExpr):
                counts[n.target.id] = counts.get(n.target.id, 0) + 2
        args = fn.args
        for a in args.posonlyargs + args.args + args.kwonlyargs + [x for x in (args.vararg, args.kwarg) if x]:
            counts[a.arg] = counts.get(a.arg, 0) + 2
        self.once = {k: value[k] for k, c in counts.items() if c == 1}

    def resolve(self, e, depth=6):
        while depth > 0 and isinstance(e, ast.Name) and e.id in self.once:
            e = self.once[e.id]
            depth -= 1
        return e


def _is_self_data(e, fld=None):
    """self.data.<fld>"""
    return (isinstance(e, ast.Attribute) and (fld is None or e.attr == fld) and isinstance(e.value, ast.Attribute)
            and e.value.attr == 'data' and isinstance(e.value.value, ast.Name))


def _name(e):
    return e.id if isinstance(e, ast.Name) else None


def classify(e, loc: Locals):
    """shape -> quantity class (see module docstring); None if not classified"""
    e = loc.resolve(e)
    if isinstance(e, ast.Attribute) and isinstance(e.value, ast.Name):
        return ('attr', e.value.id, e.attr)
    if isinstance(e, ast.Subscript):
        base, idx = e.value, e.slice
        if isinstance(base, ast.Name) and base.id in loc.once:
            base = loc.resolve(base)
        if isinstance(base, ast.Name) and isinstance(idx, ast.Constant) and isinstance(idx.value, int):
            return ('pos', base.id, idx.value)
        if _is_self_data(base) and isinstance(idx, ast.Tuple) and len(idx.elts) == 2 and all(_name(x) for x in idx.elts):
            return ('mat', base.attr, idx.elts[0].id, idx.elts[1].id)
    if isinstance(e, ast.Call):
        f = e.func
        if isinstance(f, ast.Attribute) and f.attr == '_calculate_test' and len(e.args) == 3 and not e.keywords:
            m = loc.resolve(e.args[2])
            if _is_self_data(m) and _name(e.args[0]) and _name(e.args[1]):
                return ('ttest', m.attr, e.args[0].id, e.args[1].id)
        fn = f.id if isinstance(f, ast.Name) else (f.attr if isinstance(f, ast.Attribute) else None)
        if fn in ('calc_p_value', 'calcPValue') and len(e.args) == 1 and not e.keywords:
            inner = classify(e.args[0], loc)
            if inner is not None:
                return ('pval', inner)
    return None


def _show(e):
    try:
        return ast.unparse(e)
    except Exception:
        return '?'


def _verdict(found, want, expr, label, loc, what):
    """-> (status, detail)"""
    if found == want:
        return OK, f'{label!r} <- {_show(expr)}  ({what})'
    if found is None:
        return UNK, f'{label!r} <- {_show(expr)}: expression of a shape this analysis does not classify (expected {what})'
    return BAD, f'{label!r} <- {_show(expr)}: this is {found}, but the label names {what}'


class Out:
    def __init__(self, view):
        self.view = view
        self.items = []
        self.seen = {}

    def add(self, label, status, detail, line=0):
        base = f'{self.view}:{_slug(label)}'
        k = self.seen.get(base, 0)
        self.seen[base] = k + 1
        self.items.append((base if k == 0 else f'{base}#{k}', status, detail, line))


def _for_loops(fn):
    """(For node, [enclosing For nodes])"""
    out = []

    def rec(body, stack):
        for st in body:
            if isinstance(st, ast.For):
                out.append((st, list(stack)))
                rec(st.body, stack + [st])
                rec(st.orelse, stack)
            else:
                for fld in ('body', 'orelse', 'finalbody'):
                    b = getattr(st, fld, None)
                    if isinstance(b, list) and b and isinstance(b[0], ast.stmt):
                        rec(b, stack)
                for h in getattr(st, 'handlers', []) or []:
                    rec(h.body, stack)
    rec(fn.body, [])
    return out


def _row_entries(loop):
    """every (label node, value node, line) written into a row dict inside the loop: dict literals assigned to a name
    and later `name[label] = value` stores"""
    out = []
    dict_names = set()
    for n in ast.walk(loop):
        if isinstance(n, ast.Assign) and isinstance(n.value, ast.Dict) and len(n.targets) == 1 and isinstance(n.targets[0], ast.Name):
            dict_names.add(n.targets[0].id)
            for k, v in zip(n.value.keys, n.value.values):
                if k is not None:
                    out.append((k, v, k.lineno))
    for n in ast.walk(loop):
        if (isinstance(n, ast.Assign) and len(n.targets) == 1 and isinstance(n.targets[0], ast.Subscript)
                and isinstance(n.targets[0].value, ast.Name) and n.targets[0].value.id in dict_names):
            out.append((n.targets[0].slice, n.value, n.lineno))
    out.sort(key=lambda t: t[2])
    return out


# ------------------------------------------------------------------------------------------------
# label grammars
# ------------------------------------------------------------------------------------------------
def param_label(text):
    """column label of the parameter table -> attribute of Beta it names"""
    t = text.strip()
    if t == 'Value':
        return 'value'
    fam, rest = '', t
    if t.startswith('Rob.'):
        fam, rest = 'robust_', t[4:]
    elif t.startswith('Bootstrap') or t.startswith('Boot.'):
        fam = 'bootstrap_'
        rest = t[len('Bootstrap'):] if t.startswith('Bootstrap') else t[5:]
        if rest.startswith('[{}]'):
            rest = rest[4:]
    rest = rest.strip().lower()
    q = {'std err': 'stdErr', 't-test': 'tTest', 'p-value': 'pValue'}.get(rest)
    return fam + q if q else None


def pair_label(text):
    """column label of the pairwise table -> position in the record (4 * family + quantity)"""
    t = text.strip()
    fam, rest = 0, t
    if t.startswith('Rob.'):
        fam, rest = 1, t[4:]
    elif t.startswith('Boot.') or t.startswith('Bootstrap'):
        fam, rest = 2, t[5:] if t.startswith('Boot.') else t[len('Bootstrap'):]
    rest = rest.strip().lower()
    q = {'covariance': 0, 'cov.': 0, 'correlation': 1, 'corr.': 1, 't-test': 2, 'p-value': 3}.get(rest)
    return None if q is None else 4 * fam + q


FAM_MATRIX = ['varCovar', 'robust_varCovar', 'bootstrap_varCovar']
FAM_CORR = ['correlation', 'robust_correlation', 'bootstrap_correlation']
FAM_WORD = ['classical', 'robust', 'bootstrap']


# ------------------------------------------------------------------------------------------------
# get_estimated_parameters
# ------------------------------------------------------------------------------------------------
def estimated_parameters(repo):
    out = Out('get_estimated_parameters')
    fn = _func(repo, 'bioResults', 'get_estimated_parameters')
    if fn is None:
        out.add('table', UNK, 'function not found')
        return out.items
    loc = Locals(fn)
    n_rows = 0
    for loop, _ in _for_loops(fn):
        it = loc.resolve(loop.iter)
        if not (_is_self_data(it, 'betas') and isinstance(loop.target, ast.Name)):
            continue
        b = loop.target.id
        entries = _row_entries(loop)
        if not entries:
            continue
        for k, v, line in entries:
            lt = label_text(loc.resolve(k))
            if lt is None:
                out.add('label', UNK, f'line {line}: row key {_show(k)} is not a string', line)
                continue
            text = lt[0]
            if text.strip() == 'Active bound':
                calls = [c for c in ast.walk(v) if isinstance(c, ast.Call) and isinstance(c.func, ast.Attribute)
                         and c.func.attr == 'is_bound_active' and _name(c.func.value) == b]
                attrs = {a.attr for a in ast.walk(v) if isinstance(a, ast.Attribute) and _name(a.value) == b} - {'is_bound_active'}
                if calls and not attrs:
                    out.add(text, OK, f'{text!r} <- {_show(v)}  (is_bound_active of the row\'s parameter)', line)
                else:
                    out.add(text, BAD if attrs else UNK, f'{text!r} <- {_show(v)}: expected b.is_bound_active()', line)
                continue
            attr = param_label(text)
            if attr is None:
                out.add(text, UNK, f'line {line}: label {text!r} names no quantity known to this analysis', line)
                continue
            found = classify(v, loc)
            st, detail = _verdict(found, ('attr', b, attr), v, text, loc, f'{b}.{attr} of the row\'s parameter')
            out.add(text, st, f'line {line}: {detail}', line)
            n_rows += 1
        # the row is stored under the parameter's own name
        keyed = [n for n in ast.walk(loop) if isinstance(n, ast.Assign) and isinstance(n.targets[0], ast.Subscript)
                 and isinstance(n.targets[0].value, ast.Attribute) and n.targets[0].value.attr == 'loc']
        for n in keyed:
            k = loc.resolve(n.targets[0].slice)
            good = classify(k, loc) == ('attr', b, 'name')
            out.add('row-key', OK if good else UNK, f'line {n.lineno}: row stored under {_show(k)}', n.lineno)
    if n_rows == 0:
        out.add('table', UNK, 'no loop over self.data.betas building labelled rows was found')
    return out.items


# ------------------------------------------------------------------------------------------------
# get_correlation_results  +  the record built by _calculate_stats
# ------------------------------------------------------------------------------------------------
def correlation_results(repo):
    out = Out('get_correlation_results')
    fn = _func(repo, 'bioResults', 'get_correlation_results')
    if fn is None:
        out.add('table', UNK, 'function not found')
        return out.items
    loc = Locals(fn)
    n_rows = 0
    for loop, _ in _for_loops(fn):
        it = loop.iter
        if not (isinstance(it, ast.Call) and isinstance(it.func, ast.Attribute) and it.func.attr == 'items'
                and _is_self_data(it.func.value, 'secondOrderTable') and isinstance(loop.target, ast.Tuple)
                and len(loop.target.elts) == 2 and all(_name(x) for x in loop.target.elts)):
            continue
        kname, vname = loop.target.elts[0].id, loop.target.elts[1].id
        for k, v, line in _row_entries(loop):
            lt = label_text(loc.resolve(k))
            if lt is None:
                out.add('label', UNK, f'line {line}: row key {_show(k)} is not a string', line)
                continue
            text = lt[0]
            pos = pair_label(text)
            if pos is None:
                out.add(text, UNK, f'line {line}: label {text!r} names no quantity known to this analysis', line)
                continue
            found = classify(v, loc)
            what = f'position {pos} of the pairwise record: {FAM_WORD[pos // 4]} {["covariance", "correlation", "t statistic", "p-value"][pos % 4]}'
            st, detail = _verdict(found, ('pos', vname, pos), v, text, loc, what)
            out.add(text, st, f'line {line}: {detail}', line)
            n_rows += 1
        for n in ast.walk(loop):
            if (isinstance(n, ast.Assign) and isinstance(n.targets[0], ast.Subscript)
                    and isinstance(n.targets[0].value, ast.Attribute) and n.targets[0].value.attr == 'loc'):
                lt = label_text(loc.resolve(n.targets[0].slice))
                good = (lt is not None and lt[0] == '{}-{}'
                        and [classify(h, loc) for h in lt[1]] == [('pos', kname, 0), ('pos', kname, 1)])
                out.add('row-key', OK if good else UNK, f'line {n.lineno}: row stored under {_show(n.targets[0].slice)}', n.lineno)
    if n_rows == 0:
        out.add('table', UNK, 'no loop over self.data.secondOrderTable.items() building labelled rows was found')
    return out.items


def second_order_table(repo):
    """_calculate_stats: positions 0..11 of secondOrderTable[(name_i, name_j)] hold (cov, corr, t, p) of the classical,
    robust and bootstrap family in that order, each from its own matrix, t and p for the pair (i, j) of the key."""
    out = Out('_calculate_stats:secondOrderTable')
    fn = _func(repo, 'bioResults', '_calculate_stats')
    if fn is None:
        out.add('record', UNK, 'function not found')
        return out.items
    loc = Locals(fn)
    stores = [n for n in ast.walk(fn) if isinstance(n, ast.Assign) and len(n.targets) == 1
              and isinstance(n.targets[0], ast.Subscript) and _is_self_data(n.targets[0].value, 'secondOrderTable')]
    stores.sort(key=lambda n: n.lineno)
    if not stores:
        out.add('record', UNK, 'no store into self.data.secondOrderTable[...] found')
        return out.items
    for n in stores:
        key = loc.resolve(n.targets[0].slice)
        I = J = None
        if isinstance(key, ast.Tuple) and len(key.elts) == 2:
            ks = []
            for e in key.elts:
                e = loc.resolve(e)
                if isinstance(e, ast.Subscript) and _is_self_data(e.value, 'betaNames') and _name(e.slice):
                    ks.append(e.slice.id)
            if len(ks) == 2:
                I, J = ks
        if I is None:
            out.add('key', UNK, f'line {n.lineno}: key {_show(key)} is not (betaNames[i], betaNames[j])', n.lineno)
            continue
        out.add('key', OK, f'line {n.lineno}: record stored under (betaNames[{I}], betaNames[{J}])', n.lineno)
        val = loc.resolve(n.value)
        if not isinstance(val, ast.List) or len(val.elts) not in (8, 12):
            out.add('record', UNK, f'line {n.lineno}: record is not a list literal of 8 or 12 entries', n.lineno)
            continue
        for p, e in enumerate(val.elts):
            f, q = divmod(p, 4)
            found = classify(e, loc)
            if q == 0:
                want, alt = ('mat', FAM_MATRIX[f], I, J), ('mat', FAM_MATRIX[f], J, I)
            elif q == 1:
                want, alt = ('mat', FAM_CORR[f], I, J), ('mat', FAM_CORR[f], J, I)
            elif q == 2:
                want = alt = ('ttest', FAM_MATRIX[f], I, J)
            else:
                want = alt = ('pval', ('ttest', FAM_MATRIX[f], I, J))
            label = f'position-{p}-{FAM_WORD[f]}-{["covariance", "correlation", "t", "p"][q]}'
            if found == alt:
                found = want
            st, detail = _verdict(found, want, e, f'position {p}', loc, f'{want}')
            out.add(label, st, f'line {n.lineno}: {detail}', n.lineno)
    return out.items


# ------------------------------------------------------------------------------------------------
# get_var_covar / get_robust_var_covar / get_bootstrap_var_covar
# ------------------------------------------------------------------------------------------------
def var_covar_views(repo):
    items = []
    for view, mat in (('get_var_covar', 'varCovar'), ('get_robust_var_covar', 'robust_varCovar'),
                      ('get_bootstrap_var_covar', 'bootstrap_varCovar')):
        out = Out(view)
        fn = _func(repo, 'bioResults', view)
        if fn is None:
            out.add('cell', UNK, 'function not found')
            items += out.items
            continue
        loc = Locals(fn)
        idx_of = {}            # loop variable holding a parameter -> loop variable holding its index
        for loop, _ in _for_loops(fn):
            it = loop.iter
            if (isinstance(it, ast.Call) and _name(it.func) == 'enumerate' and it.args and _is_self_data(loc.resolve(it.args[0]), 'betas')
                    and isinstance(loop.target, ast.Tuple) and len(loop.target.elts) == 2 and all(_name(x) for x in loop.target.elts)):
                idx_of[loop.target.elts[1].id] = loop.target.elts[0].id
        found_store = False
        for n in ast.walk(fn):
            if not (isinstance(n, ast.Assign) and len(n.targets) == 1 and isinstance(n.targets[0], ast.Subscript)
                    and isinstance(n.targets[0].value, ast.Attribute) and n.targets[0].value.attr in ('at', 'loc', 'iat', 'iloc')):
                continue
            found_store = True
            key = n.targets[0].slice
            ks = [classify(e, loc) for e in key.elts] if isinstance(key, ast.Tuple) and len(key.elts) == 2 else []
            if len(ks) != 2 or any(k is None or k[0] != 'attr' or k[2] != 'name' or k[1] not in idx_of for k in ks):
                out.add('cell', UNK, f'line {n.lineno}: cell key {_show(key)} is not [<parameter>.name, <parameter>.name]', n.lineno)
                continue
            want = ('mat', mat, idx_of[ks[0][1]], idx_of[ks[1][1]])
            st, detail = _verdict(classify(n.value, loc), want, n.value, f'cell [{_show(key)}]', loc,
                                  f'entry [{want[2]}, {want[3]}] of self.data.{mat}')
            out.add('cell', st, f'line {n.lineno}: {detail}', n.lineno)
        if not found_store:
            out.add('cell', UNK, 'no cell store (frame.at[row, column] = ...) found')
        items += out.items
    return items


# ------------------------------------------------------------------------------------------------
# compile_estimation_results / compile_results_in_directory
# ------------------------------------------------------------------------------------------------
def _row_kind(text):
    """row label of the compiled table ('{}' is the parameter name) -> quantity"""
    if not text.startswith('{}'):
        return None
    suffix = text[2:].strip().lower()
    if suffix == '':
        return 'value'
    if suffix == '(std)':
        return 'robust_stdErr'
    if suffix in ('(t-test)', '(ttest)'):
        return 'robust_tTest'
    return None


def _flag_and_attrs(e, b, loc, depth=4):
    """names of include_* flags and attributes of parameter `b` an expression depends on (through once-assigned locals)"""
    flags, attrs = set(), set()
    e = loc.resolve(e)
    for n in ast.walk(e):
        if isinstance(n, ast.Name):
            if n.id.startswith('include_'):
                flags.add(n.id)
            elif n.id in loc.once and depth > 0 and n is not e:
                f2, a2 = _flag_and_attrs(n, b, loc, depth - 1)
                flags |= f2
                attrs |= a2
        elif isinstance(n, ast.Attribute) and _name(n.value) == b:
            attrs.add(n.attr)
    return flags, attrs


def compiled_table(repo):
    out = Out('compile_estimation_results')
    fn = _func(repo, None, 'compile_estimation_results')
    if fn is None:
        out.add('table', UNK, 'function not found')
        return out.items
    loc = Locals(fn)
    seen = {'unformatted': 0, 'formatted': 0, 'statistics': 0}
    for loop, _ in _for_loops(fn):
        it = loc.resolve(loop.iter)
        tgt = _name(loop.target)
        if tgt is None:
            continue
        # ---- statistics rows: df.loc[s, col] = stats_results[s][0] --------------------------------
        if _name(it) == 'statistics':
            for n in ast.walk(loop):
                if not (isinstance(n, ast.Assign) and isinstance(n.targets[0], ast.Subscript)
                        and isinstance(n.targets[0].value, ast.Attribute) and n.targets[0].value.attr == 'loc'):
                    continue
                key = n.targets[0].slice
                row = key.elts[0] if isinstance(key, ast.Tuple) and key.elts else None
                v = n.value
                good = False
                if _name(row) == tgt and isinstance(v, (ast.Subscript, ast.Attribute)):
                    inner = v.value
                    is_value = (isinstance(v, ast.Attribute) and v.attr == 'value') or (
                        isinstance(v, ast.Subscript) and isinstance(v.slice, ast.Constant) and v.slice.value == 0)
                    if (is_value and isinstance(inner, ast.Subscript) and _name(inner.slice) == tgt):
                        src = loc.resolve(inner.value)
                        good = (isinstance(src, ast.Call) and isinstance(src.func, ast.Attribute)
                                and src.func.attr in ('get_general_statistics', 'getGeneralStatistics'))
                seen['statistics'] += 1
                out.add('statistics-row', OK if good else UNK,
                        f'line {n.lineno}: row {_show(row)} <- {_show(v)}' + ('  (value of the general statistic of that name)' if good else
                                                                            ': expected <general statistics>[<same label>].value'), n.lineno)
            continue
        if not (isinstance(it, ast.Attribute) and it.attr == 'betas'):
            continue
        b = tgt
        stores = [n for n in ast.walk(loop) if isinstance(n, ast.Assign) and len(n.targets) == 1
                  and isinstance(n.targets[0], ast.Subscript) and isinstance(n.targets[0].value, ast.Attribute)
                  and n.targets[0].value.attr == 'loc' and isinstance(n.targets[0].slice, ast.Tuple) and n.targets[0].slice.elts]
        for n in stores:
            row = loc.resolve(n.targets[0].slice.elts[0])
            if classify(row, loc) == ('attr', b, 'name'):
                text, holes = '{}', [row]
            else:
                lt = label_text(row)
                if lt is None:
                    out.add('row', UNK, f'line {n.lineno}: row label {_show(row)} is not a string', n.lineno)
                    continue
                text, holes = lt
            val = loc.resolve(n.value)
            vt = label_text(val) if isinstance(val, ast.JoinedStr) else None
            if vt is None:
                # ---- numerical table: one row per quantity ---------------------------------------
                if not holes or classify(holes[0], loc) != ('attr', b, 'name') or len(holes) != 1:
                    out.add('unformatted:row', UNK, f'line {n.lineno}: row label {_show(row)}: expected "<parameter name><suffix>"', n.lineno)
                    continue
                kind = _row_kind(text)
                nice = {'value': 'value-row', 'robust_stdErr': '(std)', 'robust_tTest': '(ttest)'}.get(kind, text)
                if kind is None:
                    out.add(f'unformatted:{text}', UNK, f'line {n.lineno}: row suffix in {text!r} names no quantity known to this analysis', n.lineno)
                    continue
                st, detail = _verdict(classify(val, loc), ('attr', b, kind), val, text.replace('{}', '<name>'), loc,
                                      f'{b}.{kind} of that parameter')
                seen['unformatted'] += 1
                out.add(f'unformatted:{nice}', st, f'line {n.lineno}: {detail}', n.lineno)
                continue
            # ---- formatted table: "<value> (<std>) (<t>)" under "<name> (std) (t-test)" ------------------
            seen['formatted'] += 1
            title_parts = []          # (quantity, flag) in order, from the row title
            ok_title = bool(holes) and classify(holes[0], loc) == ('attr', b, 'name')
            for h in holes[1:]:
                hr = loc.resolve(h)
                consts = [c.value for c in ast.walk(hr) if isinstance(c, ast.Constant) and isinstance(c.value, str) and c.value.strip()]
                flags, _ = _flag_and_attrs(h, b, loc)
                kind = _row_kind('{}' + consts[0]) if len(consts) == 1 else None
                title_parts.append((kind, tuple(sorted(flags))))
            cell_text, cell_holes = vt
            cell_parts = []
            first = classify(cell_holes[0], loc) if cell_holes else None
            st, detail = _verdict(first, ('attr', b, 'value'), cell_holes[0] if cell_holes else val, 'first figure of the cell', loc,
                                  f'{b}.value')
            out.add('formatted:value', st if ok_title else UNK, f'line {n.lineno}: {detail}', n.lineno)
            for h in cell_holes[1:]:
                flags, attrs = _flag_and_attrs(h, b, loc)
                cell_parts.append((tuple(sorted(attrs)), tuple(sorted(flags))))
            for kind, nice in (('robust_stdErr', '(std)'), ('robust_tTest', '(t-test)')):
                tpos = [i for i, (k, _) in enumerate(title_parts) if k == kind]
                if len(tpos) != 1 or len(cell_parts) != len(title_parts):
                    out.add(f'formatted:{nice}', UNK, f'line {n.lineno}: row title {_show(row)} / cell {_show(val)}: '
                            f'cannot pair the title part {nice} with a figure of the cell', n.lineno)
                    continue
                attrs, cflags = cell_parts[tpos[0]]
                tflags = title_parts[tpos[0]][1]
                if attrs == (kind,) and cflags == tflags and len(tflags) == 1:
                    out.add(f'formatted:{nice}', OK, f'line {n.lineno}: title part {nice} and figure {tpos[0] + 2} of the cell both depend on '
                            f'{tflags[0]}; the figure is {b}.{kind}', n.lineno)
                elif len(attrs) == 1 and attrs != (kind,):
                    out.add(f'formatted:{nice}', BAD, f'line {n.lineno}: figure {tpos[0] + 2} of the cell is {b}.{attrs[0]}, the title part '
                            f'{nice} names {b}.{kind}', n.lineno)
                elif attrs == (kind,) and cflags != tflags and len(cflags) == 1 and len(tflags) == 1:
                    out.add(f'formatted:{nice}', BAD, f'line {n.lineno}: title part {nice} appears with {tflags[0]} but the figure with {cflags[0]}',
                            n.lineno)
                else:
                    out.add(f'formatted:{nice}', UNK, f'line {n.lineno}: figure {tpos[0] + 2} of the cell depends on {attrs} / {cflags}', n.lineno)
    for part, cnt in seen.items():
        if cnt == 0:
            out.add(f'{part}:rows' if part != 'statistics' else 'statistics-row', UNK, f'no {part} rows found in compile_estimation_results')
    # ---- compile_results_in_directory hands its options over in the right order ---------------------
    d = _func(repo, None, 'compile_results_in_directory')
    params = [a.arg for a in fn.args.args]
    if d is None:
        out.add('directory:arguments', UNK, 'compile_results_in_directory not found')
    else:
        calls = [c for c in ast.walk(d) if isinstance(c, ast.Call) and _name(c.func) in ('compile_estimation_results', 'compileEstimationResults')]
        if len(calls) != 1:
            out.add('directory:arguments', UNK, f'{len(calls)} calls of compile_estimation_results found')
        else:
            c = calls[0]
            bound = {}
            for i, a in enumerate(c.args):
                if i < len(params):
                    bound[params[i]] = a
            for k in c.keywords:
                if k.arg:
                    bound[k.arg] = k.value
            own = {a.arg for a in d.args.args + d.args.kwonlyargs}
            wrong = [f'{p} <- {_show(a)}' for p, a in bound.items() if p in own and _name(a) != p]
            missing = [p for p in own if p in params and p not in bound]
            out.add('directory:arguments', BAD if wrong else (UNK if missing else OK),
                    f'line {c.lineno}: ' + ('; '.join(wrong) + ': option handed to another parameter' if wrong else
                                            (f'options not handed over: {missing}' if missing else
                                             'every option is handed to the parameter of the same name')), c.lineno)
    return out.items


# ------------------------------------------------------------------------------------------------
# get_general_statistics
# ------------------------------------------------------------------------------------------------
def general_statistics(repo):
    """every `d[label] = GeneralStatistic(value=<expr>, ...)` / dict-literal entry: <expr> is the raw field the label names
    (table GENERAL_STATISTICS of contracts/c08_tables.py).  Covers every row in every configuration, also the
    Monte-Carlo rows that the quick tier does not prove deductively."""
    from contracts.c08_tables import GENERAL_STATISTICS
    out = Out('get_general_statistics')
    fn = _func(repo, 'bioResults', 'get_general_statistics')
    if fn is None:
        out.add('table', UNK, 'function not found')
        return out.items
    loc = Locals(fn)
    entries = []
    for n in ast.walk(fn):
        if isinstance(n, ast.Dict):
            entries += [(k, v, k.lineno) for k, v in zip(n.keys, n.values) if k is not None and label_text(k) is not None
                        and isinstance(loc.resolve(v), ast.Call)]
        elif (isinstance(n, ast.Assign) and len(n.targets) == 1 and isinstance(n.targets[0], ast.Subscript)
              and isinstance(n.targets[0].value, ast.Name) and label_text(loc.resolve(n.targets[0].slice)) is not None):
            entries.append((loc.resolve(n.targets[0].slice), n.value, n.lineno))
    entries.sort(key=lambda t: t[2])
    seen = set()
    for k, v, line in entries:
        text = label_text(k)[0]
        call = loc.resolve(v)
        val = None
        if isinstance(call, ast.Call) and _name(call.func) == 'GeneralStatistic':
            val = next((kw.value for kw in call.keywords if kw.arg == 'value'), call.args[0] if call.args else None)
        if val is None:
            out.add(text, UNK, f'line {line}: {text!r} <- {_show(v)}: not a GeneralStatistic(value=...)', line)
            continue
        seen.add(text)
        rv = loc.resolve(val)
        if text == 'Number of free parameters':
            good = isinstance(rv, ast.Call) and isinstance(rv.func, ast.Attribute) and rv.func.attr in ('number_of_free_parameters', 'numberOfFreeParameters')
            out.add(text, OK if good else UNK, f'line {line}: {text!r} <- {_show(rv)}', line)
            continue
        if text == 'Types of draws':
            fields = {a.attr for a in ast.walk(rv) if _is_self_data(a)}
            out.add(text, OK if fields == {'typesOfDraws'} else (BAD if fields else UNK), f'line {line}: {text!r} built from self.data.{sorted(fields)}', line)
            continue
        if text not in GENERAL_STATISTICS:
            out.add(text, UNK, f'line {line}: label {text!r} has no specified quantity (extend GENERAL_STATISTICS)', line)
            continue
        want = GENERAL_STATISTICS[text][0]
        # self.data.<field>, also through a once-assigned alias of self.data
        found = None
        if isinstance(rv, ast.Attribute):
            base = loc.resolve(rv.value)
            if isinstance(base, ast.Attribute) and base.attr == 'data' and _name(base.value) == 'self':
                found = ('data', rv.attr)
        st, detail = _verdict(found, ('data', want), rv, text, loc, f'self.data.{want}')
        out.add(text, st, f'line {line}: {detail}', line)
    for label in GENERAL_STATISTICS:
        if label not in seen:
            out.add(label, UNK, f'no row {label!r} is written by get_general_statistics')
    return out.items


GROUPS = [('views', general_statistics), ('views', estimated_parameters), ('views', correlation_results), ('native', second_order_table), ('views', var_covar_views),
          ('compiled', compiled_table)]


def all_checks(repo):
    """-> list of (name suffix, status, detail, replay group)"""
    out = []
    for group, fn in GROUPS:
        try:
            for name, status, detail, _line in fn(repo):
                out.append((name, status, detail, group))
        except Exception as e:      # pragma: no cover  (analysis bug: undecided, never green)
            out.append((f'{fn.__name__}:analysis', UNK, f'analysis raised {type(e).__name__}: {e}', group))
    return out
