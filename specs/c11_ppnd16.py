"""Transcription of Algorithm AS 241, routine PPND16 (Wichura, M. J. (1988), "The percentage
points of the normal distribution", Applied Statistics 37(3), 477-484).

Pure data + a scalar reference implementation; importable by python3-vt and /venv/bin/python
(no third-party import).  The decimal strings are the published 20-digit constants; what the
checks compare is the IEEE double each string denotes (`float(text)`), because that is what a
Python float literal in the code under verification denotes as well.

Published algorithm (p = lower tail area, 0 < p < 1):

    q = p - 0.5
    if |q| <= SPLIT1 (0.425):
        r = CONST1 (0.180625) - q*q
        z = q * A(r) / B(r)                      A = a0 + a1 r + ... + a7 r^7,  B = 1 + b1 r + ... + b7 r^7
    else:
        r = p if q < 0 else 1 - p                (= min(p, 1-p))
        r = sqrt(-log(r))
        if r <= SPLIT2 (5):   r = r - CONST2 (1.6);  z = C(r) / D(r)
        else:                 r = r - SPLIT2 (5);    z = E(r) / F(r)
        if q < 0: z = -z
"""
from fractions import Fraction

SPLIT1 = '0.425'
SPLIT2 = '5.0'
CONST1 = '0.180625'
CONST2 = '1.6'

# numerator / denominator tables, constant term first.  Denominators start with 1.
TABLES = {
    'a': ['3.3871328727963666080e0', '1.3314166789178437745e+2', '1.9715909503065514427e+3',
          '1.3731693765509461125e+4', '4.5921953931549871457e+4', '6.7265770927008700853e+4',
          '3.3430575583588128105e+4', '2.5090809287301226727e+3'],
    'b': ['1.0', '4.2313330701600911252e+1', '6.8718700749205790830e+2', '5.3941960214247511077e+3',
          '2.1213794301586595867e+4', '3.9307895800092710610e+4', '2.8729085735721942674e+4',
          '5.2264952788528545610e+3'],
    'c': ['1.42343711074968357734e0', '4.63033784615654529590e0', '5.76949722146069140550e0',
          '3.64784832476320460504e0', '1.27045825245236838258e0', '2.41780725177450611770e-1',
          '2.27238449892691845833e-2', '7.74545014278341407640e-4'],
    'd': ['1.0', '2.05319162663775882187e0', '1.67638483018380384940e0', '6.89767334985100004550e-1',
          '1.48103976427480074590e-1', '1.51986665636164571966e-2', '5.47593808499534494600e-4',
          '1.05075007164441684324e-9'],
    'e': ['6.65790464350110377720e0', '5.46378491116411436990e0', '1.78482653991729133580e0',
          '2.96560571828504891230e-1', '2.65321895265761230930e-2', '1.24266094738807843860e-3',
          '2.71155556874348757815e-5', '2.01033439929228813265e-7'],
    'f': ['1.0', '5.99832206555887937690e-1', '1.36929880922735805310e-1', '1.48753612908506148525e-2',
          '7.86869131145613259100e-4', '1.84631831751005468180e-5', '1.42151175831644588870e-7',
          '2.04426310338993978564e-15'],
}

# branch -> (numerator table, denominator table)
BRANCHES = {'central': ('a', 'b'), 'near-tail': ('c', 'd'), 'far-tail': ('e', 'f')}


def fl(text: str) -> float:
    return float(text)


def frac(text: str) -> Fraction:
    """The exact rational value of the double denoted by the decimal string."""
    return Fraction(float(text))


def coefficient_names():
    """[(name, branch, 'num'|'den', power, exact value)] for the 45 free coefficients."""
    out = []
    for br, (n, d) in BRANCHES.items():
        for k, t in enumerate(TABLES[n]):
            out.append((f'{n}{k}', br, 'num', k, frac(t)))
        for k, t in enumerate(TABLES[d]):
            if k:
                out.append((f'{d}{k}', br, 'den', k, frac(t)))
    return out


def _horner(tab, r):
    acc = fl(tab[-1])
    for t in reversed(tab[:-1]):
        acc = acc * r + fl(t)
    return acc


def ppnd16(p: float) -> float:
    """Scalar reference implementation in double precision (Horner, as published)."""
    import math
    q = p - 0.5
    if abs(q) <= fl(SPLIT1):
        r = fl(CONST1) - q * q
        return q * _horner(TABLES['a'], r) / _horner(TABLES['b'], r)
    r = p if q < 0 else 1.0 - p
    if r <= 0:
        return 0.0
    r = math.sqrt(-math.log(r))
    if r <= fl(SPLIT2):
        r = r - fl(CONST2)
        z = _horner(TABLES['c'], r) / _horner(TABLES['d'], r)
    else:
        r = r - fl(SPLIT2)
        z = _horner(TABLES['e'], r) / _horner(TABLES['f'], r)
    return -z if q < 0 else z
