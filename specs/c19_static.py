"""C19 static obligations: decided by an analysis of the real AST (no import of biogeme).

What they establish (for every run of the code, whatever the data):
  * process_row:           the sampled frame is flattened to columns named `<column>_<position>`
                           (`_MEV_<column>_<position>` for the second sample), position = row of the sampled frame,
                           added to a copy of the individual's own row;
  * define_new_variables:  for every position p the combined variable `<name>_<p>` is the formula in which exactly
                           the attributes of the alternatives are renamed with the suffix `_<p>` (prefix `_MEV_` for the
                           second sample) -- the individual's columns keep their name;
  * generate_model:        utility of position p = the generic utility with the attributes renamed `<attr>_<p>`;
                           corrected utility = utility - `_log_proba_<p>` for the same p; the chosen alternative is
                           position 0; terms of the main sample read main-sample columns only, terms of the MEV sample
                           read `<mev_prefix>`-columns only.
Each function returns (ok, detail).  This module is imported by props/C19.py only (it registers no spec function).
"""
from __future__ import annotations

import ast

CSG = 'biogeme.sampling_of_alternatives.choice_set_generation'
GM = 'biogeme.sampling_of_alternatives.generate_model'


def _method(repo, module, cls, name):
    mi = repo.modules.get(module)
    if mi is None or cls not in mi.classes or name not in mi.classes[cls].methods:
        return None
    return mi.classes[cls].methods[name].node


def fparts(node):
    """Shape of an f-string / string constant: list of ('lit', text) | ('expr', source)."""
    if isinstance(node, ast.Constant) and isinstance(node.value, str):
        return [('lit', node.value)] if node.value else []
    if not isinstance(node, ast.JoinedStr):
        return None
    out = []
    for p in node.values:
        if isinstance(p, ast.Constant):
            if out and out[-1][0] == 'lit':
                out[-1] = ('lit', out[-1][1] + str(p.value))
            else:
                out.append(('lit', str(p.value)))
        elif isinstance(p, ast.FormattedValue) and p.format_spec is None and p.conversion == -1:
            out.append(('expr', ast.unparse(p.value)))
        else:
            return None
    return out


def assignments(fn):
    """name -> list of assigned value nodes (simple `name = value` statements anywhere in fn)."""
    env: dict[str, list] = {}
    for n in ast.walk(fn):
        if isinstance(n, ast.Assign) and len(n.targets) == 1 and isinstance(n.targets[0], ast.Name):
            env.setdefault(n.targets[0].id, []).append(n.value)
        if isinstance(n, ast.AnnAssign) and isinstance(n.target, ast.Name) and n.value is not None:
            env.setdefault(n.target.id, []).append(n.value)
    return env


def single(env, name):
    vs = env.get(name, [])
    return vs[0] if len(vs) == 1 else None


def is_call(node, attr=None, nargs=None):
    if not isinstance(node, ast.Call):
        return False
    if attr is not None and not (isinstance(node.func, ast.Attribute) and node.func.attr == attr):
        return False
    return nargs is None or len(node.args) == nargs


def kw(call, name):
    for k in call.keywords:
        if k.arg == name:
            return k.value
    return None


# ---------------------------------------------------------------------------------------------
def check_process_row(repo):
    fn = _method(repo, CSG, 'ChoiceSetsGeneration', 'process_row')
    if fn is None:
        return False, 'ChoiceSetsGeneration.process_row not found'
    env = assignments(fn)
    row_param = fn.args.args[1].arg if len(fn.args.args) > 1 else None
    comps = [n for n in ast.walk(fn) if isinstance(n, ast.DictComp)]
    if not comps:
        return False, 'no dict comprehension flattening the sample'
    seen = {'main': 0, 'mev': 0}
    updated = []
    # the returned dictionary starts as the individual's own row
    ret = [n for n in ast.walk(fn) if isinstance(n, ast.Return)]
    if len(ret) != 1 or not isinstance(ret[0].value, ast.Name):
        return False, 'process_row must return the row dictionary'
    out_name = ret[0].value.id
    base = single(env, out_name)
    if not (is_call(base, 'to_dict', 0) and ast.unparse(base.func.value) == row_param):
        return False, f'{out_name} is not initialised with {row_param}.to_dict()'
    for n in ast.walk(fn):
        if is_call(n, 'update', 1) and ast.unparse(n.func.value) == out_name and isinstance(n.args[0], ast.Name):
            updated.append(n.args[0].id)
    for dc in comps:
        g = dc.generators
        if len(g) != 1 or g[0].ifs:
            return False, 'flattening comprehension has a filter or several generators'
        tgt = g[0].target
        if not (isinstance(tgt, ast.Tuple) and len(tgt.elts) == 2 and isinstance(tgt.elts[0], ast.Tuple)
                and len(tgt.elts[0].elts) == 2 and all(isinstance(e, ast.Name) for e in tgt.elts[0].elts)
                and isinstance(tgt.elts[1], ast.Name)):
            return False, 'flattening comprehension does not iterate over ((row, column), value) items'
        row_v, col_v, val_v = tgt.elts[0].elts[0].id, tgt.elts[0].elts[1].id, tgt.elts[1].id
        if not (isinstance(dc.value, ast.Name) and dc.value.id == val_v):
            return False, f'the flattened value is not the cell value `{val_v}`'
        it = g[0].iter
        if not (is_call(it, 'items', 0) and isinstance(it.func.value, ast.Name)):
            return False, 'flattening comprehension does not iterate over <stacked>.items()'
        stacked = single(env, it.func.value.id)
        if not (is_call(stacked, 'stack', 0) and isinstance(stacked.func.value, ast.Name)):
            return False, f'{it.func.value.id} is not <sample>.stack() (index = (row of the sample, column))'
        sample = single(env, stacked.func.value.id)
        key = fparts(dc.key)
        if key is None:
            return False, 'column name is not an f-string'
        if is_call(sample, 'sample_alternatives'):
            ch = kw(sample, 'chosen') or (sample.args[0] if sample.args else None)
            chv = single(env, ch.id) if isinstance(ch, ast.Name) else ch
            if chv is None or ast.unparse(chv) != f'{row_param}[self.choice_column]':
                return False, 'the main sample is not drawn around the individual\'s own choice (row[self.choice_column])'
            want = [('expr', col_v), ('lit', '_'), ('expr', row_v)]
            which = 'main'
        elif is_call(sample, 'sample_mev_alternatives'):
            want = [('expr', 'MEV_PREFIX'), ('expr', col_v), ('lit', '_'), ('expr', row_v)]
            which = 'mev'
        else:
            return False, f'{stacked.func.value.id} is not the result of sample_alternatives / sample_mev_alternatives'
        if key != want:
            return False, f'{which} sample: column names are {ast.unparse(dc.key)}, expected <column>_<position>' + (' with the MEV prefix' if which == 'mev' else '')
        seen[which] += 1
        # the flattened dictionary must be merged into the returned row
        holder = [k for k, vs in env.items() if any(v is dc for v in vs)]
        if not holder or holder[0] not in updated:
            return False, f'the flattened {which} sample is not merged into the returned row'
    if seen['main'] != 1 or seen['mev'] != 1:
        return False, f'expected one flattening of the main sample and one of the MEV sample, found {seen}'
    return True, 'columns <col>_<row of the sample> / _MEV_<col>_<row>, merged into a copy of the individual\'s row'


# ---------------------------------------------------------------------------------------------
def check_define_new_variables(repo):
    fn = _method(repo, CSG, 'ChoiceSetsGeneration', 'define_new_variables')
    ga = _method(repo, CSG, 'ChoiceSetsGeneration', 'get_attributes_from_expression')
    if fn is None or ga is None:
        return False, 'define_new_variables / get_attributes_from_expression not found'
    # get_attributes_from_expression: variables of the expression that are columns of the table of alternatives
    genv = assignments(ga)
    r = [n for n in ast.walk(ga) if isinstance(n, ast.Return)]
    ok_ga = False
    if len(r) == 1 and isinstance(r[0].value, ast.BinOp) and isinstance(r[0].value.op, ast.BitAnd):
        sides = []
        for s in (r[0].value.left, r[0].value.right):
            v = single(genv, s.id) if isinstance(s, ast.Name) else s
            sides.append(ast.unparse(v) if v is not None else '')
        ok_ga = (any(s == 'set(self.alternatives.columns)' for s in sides)
                 and any('set_of_elementary_expression' in s and 'VARIABLE' in s for s in sides))
    if not ok_ga:
        return False, 'get_attributes_from_expression is not (variables of the expression) & set(self.alternatives.columns)'
    outer = [n for n in ast.walk(fn) if isinstance(n, ast.For) and ast.unparse(n.iter) == 'self.combined_variables']
    if len(outer) != 1 or not isinstance(outer[0].target, ast.Name):
        return False, 'no loop over self.combined_variables'
    var = outer[0].target.id
    found = {}
    for loop in [n for n in ast.walk(outer[0]) if isinstance(n, ast.For) and n is not outer[0]]:
        it = loop.iter
        if not (isinstance(it, ast.Call) and ast.unparse(it.func) == 'range' and len(it.args) == 1 and isinstance(loop.target, ast.Name)):
            return False, f'unexpected inner loop {ast.unparse(it)}'
        size = ast.unparse(it.args[0])
        idx = loop.target.id
        lenv = assignments(loop)
        renames = [n for n in ast.walk(loop) if is_call(n, 'rename_elementary')]
        defines = [n for n in ast.walk(loop) if is_call(n, 'define_variable', 2)]
        if len(renames) != 1 or len(defines) != 1:
            return False, f'loop over {size}: expected one rename_elementary and one define_variable'
        rn, df = renames[0], defines[0]
        expr_name = ast.unparse(rn.func.value)
        src = single(lenv, expr_name)
        if src is None or ast.unparse(src) != f'copy.deepcopy({var}.formula)':
            return False, f'loop over {size}: the renamed expression is not a deep copy of {var}.formula'
        if ast.unparse(df.args[1]) != expr_name:
            return False, f'loop over {size}: the defined expression is not the renamed copy'
        attrs = rn.args[0] if rn.args else None
        av = single(lenv, attrs.id) if isinstance(attrs, ast.Name) else attrs
        if av is None or ast.unparse(av) != f'self.get_attributes_from_expression({expr_name})':
            return False, f'loop over {size}: the renamed names are not the attributes of the alternatives occurring in the formula'
        suffix, prefix = kw(rn, 'suffix'), kw(rn, 'prefix')
        if fparts(suffix) != [('lit', '_'), ('expr', idx)]:
            return False, f'loop over {size}: suffix is {ast.unparse(suffix) if suffix else None}, expected _<position>'
        name = fparts(df.args[0])
        if size == 'self.total_sample_size':
            if prefix is not None:
                return False, 'main sample: attributes renamed with a prefix'
            want = [('expr', f'{var}.name'), ('lit', '_'), ('expr', idx)]
        elif size == 'self.second_sample_size':
            if prefix is None or ast.unparse(prefix) != 'MEV_PREFIX':
                return False, 'MEV sample: attributes are not renamed with the MEV prefix'
            want = [('expr', 'MEV_PREFIX'), ('expr', f'{var}.name'), ('lit', '_'), ('expr', idx)]
        else:
            return False, f'loop over an unexpected range {size}'
        if name != want:
            return False, f'loop over {size}: variable is named {ast.unparse(df.args[0])}'
        found[size] = found.get(size, 0) + 1
    if found != {'self.total_sample_size': 1, 'self.second_sample_size': 1}:
        return False, f'expected one loop per sample, found {found}'
    return True, '<name>_<p> = formula with the alternatives\' attributes renamed <attr>_<p> (MEV: _MEV_ prefix on both)'


# ---------------------------------------------------------------------------------------------
def _loops_over(fn, source):
    """(targets, body nodes) of every for-loop / comprehension of fn iterating `source`.items()."""
    out = []
    for n in ast.walk(fn):
        if isinstance(n, ast.For) and ast.unparse(n.iter) == f'{source}.items()':
            out.append((n.target, n.body))
        if isinstance(n, (ast.DictComp, ast.ListComp, ast.SetComp, ast.GeneratorExp)):
            for g in n.generators:
                if ast.unparse(g.iter) == f'{source}.items()':
                    body = [n.key, n.value] if isinstance(n, ast.DictComp) else [n.elt]
                    out.append((g.target, body))
    return out


def _variables_in(nodes, stop_at=()):
    """Variable(<f-string>) calls inside nodes, not descending into loops over one of `stop_at`."""
    res = []

    def visit(n):
        if isinstance(n, ast.For) and any(ast.unparse(n.iter) == f'{s}.items()' for s in stop_at):
            return
        if isinstance(n, ast.Call) and ast.unparse(n.func) == 'Variable' and len(n.args) == 1:
            res.append(n)
        for c in ast.iter_child_nodes(n):
            visit(c)
    for n in nodes:
        visit(n)
    return res


def check_utilities(repo):
    init = _method(repo, GM, 'GenerateModel', '__init__')
    gu = _method(repo, GM, 'GenerateModel', 'generate_utility')
    if init is None or gu is None:
        return False, 'GenerateModel.__init__ / generate_utility not found'
    ok = False
    for n in ast.walk(init):
        if isinstance(n, ast.Assign) and ast.unparse(n.targets[0]) == 'self.utilities' and isinstance(n.value, ast.DictComp):
            dc = n.value
            g = dc.generators[0]
            if (len(dc.generators) == 1 and not g.ifs and isinstance(g.target, ast.Name)
                    and ast.unparse(g.iter) == 'range(self.total_sample_size)' and ast.unparse(dc.key) == g.target.id
                    and is_call(dc.value, 'generate_utility') and ast.unparse(dc.value.func.value) == 'self'):
                p, s = kw(dc.value, 'prefix'), kw(dc.value, 'suffix')
                ok = fparts(p) == [] and fparts(s) == [('lit', '_'), ('expr', g.target.id)]
    if not ok:
        return False, 'self.utilities is not {p: generate_utility(prefix="", suffix="_<p>") for p in range(total_sample_size)}'
    env = assignments(gu)
    r = [n for n in ast.walk(gu) if isinstance(n, ast.Return)]
    rn = [n for n in ast.walk(gu) if is_call(n, 'rename_elementary')]
    if len(r) != 1 or len(rn) != 1 or not isinstance(r[0].value, ast.Name):
        return False, 'generate_utility: unexpected shape'
    c = single(env, r[0].value.id)
    if c is None or ast.unparse(c) != 'copy.deepcopy(self.utility_function)' or ast.unparse(rn[0].func.value) != r[0].value.id:
        return False, 'generate_utility does not rename a deep copy of the generic utility'
    if not (rn[0].args and ast.unparse(rn[0].args[0]) == 'self.attributes' and ast.unparse(kw(rn[0], 'suffix')) == 'suffix'
            and ast.unparse(kw(rn[0], 'prefix')) == 'prefix'):
        return False, 'generate_utility does not rename self.attributes with the given prefix/suffix'
    return True, 'utility of position p = generic utility with every attribute renamed <attr>_<p>'


def check_corrections(repo, method):
    fn = _method(repo, GM, 'GenerateModel', method)
    if fn is None:
        return False, f'GenerateModel.{method} not found'
    env = assignments(fn)
    rets = [n for n in ast.walk(fn) if isinstance(n, ast.Return)]
    if len(rets) != 1 or not (isinstance(rets[0].value, ast.Call) and ast.unparse(rets[0].value.func) == 'loglogit' and len(rets[0].value.args) == 3):
        return False, 'does not return loglogit(corrected utilities, None, 0)'
    a = rets[0].value.args
    if not (isinstance(a[1], ast.Constant) and a[1].value is None and isinstance(a[2], ast.Constant) and a[2].value == 0 and not isinstance(a[2].value, bool)):
        return False, 'the logit is not taken with all positions available and position 0 (the chosen alternative) as the choice'
    dc = single(env, a[0].id) if isinstance(a[0], ast.Name) else a[0]
    if not (isinstance(dc, ast.DictComp) and len(dc.generators) == 1 and not dc.generators[0].ifs
            and ast.unparse(dc.generators[0].iter) == 'self.utilities.items()'
            and isinstance(dc.generators[0].target, ast.Tuple) and len(dc.generators[0].target.elts) == 2):
        return False, 'corrected utilities are not built position by position from self.utilities'
    k, u = (e.id for e in dc.generators[0].target.elts)
    if ast.unparse(dc.key) != k:
        return False, 'corrected utilities are re-indexed'
    # value must be  u - Variable(f'{LOG_PROBA_COL}_{k}') [+ mev term of the same position]
    v = dc.value
    mev = None
    if isinstance(v, ast.BinOp) and isinstance(v.op, ast.Add):
        v, mev = v.left, v.right
    if not (isinstance(v, ast.BinOp) and isinstance(v.op, ast.Sub) and isinstance(v.left, ast.Name) and v.left.id == u
            and isinstance(v.right, ast.Call) and ast.unparse(v.right.func) == 'Variable' and len(v.right.args) == 1
            and fparts(v.right.args[0]) == [('expr', 'LOG_PROBA_COL'), ('lit', '_'), ('expr', k)]):
        return False, f'corrected utility is {ast.unparse(dc.value)}, expected <utility of p> - Variable(_log_proba_<p>)'
    if mev is not None and not (isinstance(mev, ast.Subscript) and ast.unparse(mev.slice) == k):
        return False, 'the MEV term added to position p is not the term of position p'
    if method == 'get_logit' and mev is not None:
        return False, 'logit with a MEV term'
    return True, 'corrected utility of position p = utility_p - _log_proba_p; choice = position 0'


def check_prefix_discipline(repo, method):
    """Terms built for the positions of the main sample read columns of the main sample (no MEV prefix); terms built
    for the positions of the MEV sample read columns carrying self.mev_prefix; each Variable is indexed by the loop's
    own position."""
    fn = _method(repo, GM, 'GenerateModel', method)
    if fn is None:
        return False, f'GenerateModel.{method} not found'
    n_checked = 0
    for source, must_prefix in (('self.utilities', False), ('self.mev_utilities', True)):
        other = 'self.mev_utilities' if source == 'self.utilities' else 'self.utilities'
        for tgt, body in _loops_over(fn, source):
            pos = tgt.elts[0].id if isinstance(tgt, ast.Tuple) and isinstance(tgt.elts[0], ast.Name) else None
            for call in _variables_in(body, stop_at=(other,)):
                parts = fparts(call.args[0])
                if parts is None:
                    return False, f'line {call.lineno}: Variable name is not an f-string'
                n_checked += 1
                has = bool(parts) and parts[0] == ('expr', 'self.mev_prefix')
                if has != must_prefix:
                    return False, (f'line {call.lineno}: {ast.unparse(call)} is built for a position of the '
                                   f'{"MEV" if must_prefix else "main"} sample but reads a column '
                                   f'{"without" if must_prefix else "with"} the MEV prefix')
                if parts[-1] != ('expr', pos) or parts[-2] != ('lit', '_'):
                    return False, f'line {call.lineno}: {ast.unparse(call)} is not indexed by the position `{pos}` of its own loop'
    if n_checked == 0:
        return False, 'no Variable(...) found in the loops over the sampled positions'
    return True, f'{n_checked} column references checked'


def all_checks(repo):
    out = [('process_row:columns-named-col_position', check_process_row(repo)),
           ('define_new_variables:alternative-attributes-renamed-by-position', check_define_new_variables(repo)),
           ('GenerateModel.utilities:attributes-renamed-by-position', check_utilities(repo))]
    for m in ('get_logit', 'get_nested_logit', 'get_cross_nested_logit'):
        out.append((f'GenerateModel.{m}:utility-minus-log-proba-of-same-position', check_corrections(repo, m)))
    for m in ('get_nested_logit', 'get_cross_nested_logit'):
        out.append((f'GenerateModel.{m}:each-sample-reads-its-own-columns', check_prefix_discipline(repo, m)))
    return out
