"""C16 (round 2, tag c16c) spec functions.

has_class(x, 'C')   x is an object whose DYNAMIC class is C or a subclass of C.  The engine answers
                    `isinstance(x, C)` from the static type of x when it has one, and the static type of a list element
                    carries no fact about the object itself, so two objects of different classes that share a field
                    name (Catalog.name / NamedExpression.name) could alias.  This predicate states the run-time class
                    (the uninterpreted `cls_of` the engine fixes at every construction).
"""
from pyvc.specs_runtime import spec


@spec('has_class')
def has_class(ex, st, x, cls):
    import z3
    from pyvc.vals import Val, v_bool
    name = cls.lit
    ci = ex.repo.find_class(name)
    if ci is None:
        from pyvc.state import Unsupported
        raise Unsupported(f'has_class: unknown class {name}')
    ids = [ex.class_id(c.name) for c in ex.repo.subclasses(ci.name)]
    t = ex.box(st, x)
    return v_bool(z3.And(Val.is_ref(t), z3.Or(*[ex.cls_of(Val.rv(t)) == i for i in ids])))
