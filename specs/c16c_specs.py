"""C16 (round 2, tag c16c) spec functions.

has_class(x, 'C')   x is an object whose DYNAMIC class is C or a subclass of C.  The engine answers
                    `isinstance(x, C)` from the static type of x when it has one, and the static type of a list element
                    carries no fact about the object itself, so two objects of different classes that share a field
                    name (Catalog.name / NamedExpression.name) could alias.  This predicate states the run-time class
                    (the uninterpreted `cls_of` the engine fixes at every construction).

set_at(s, i)        the element at position i of the arbitrary but fixed enumeration of the set s (LIBSPEC of set
                    iteration: positions 0 .. len(s)-1 deliver every member exactly once)
iter_pos(it)        ghost: number of elements a set iterator has delivered so far
iter_over(it, s)    ghost: `it` is an iterator over the set object s
"""
from pyvc.specs_runtime import spec


@spec('set_at')
def set_at(ex, st, s, i):
    from pyvc.libext import c16c_ext
    from pyvc.vals import ANY, V, as_int
    ety = s.ty.args[0] if s.ty.args else ANY
    return V(c16c_ext.set_enum_at(st, s, as_int(i)), ety)


@spec('iter_pos')
def iter_pos(ex, st, it):
    from pyvc.vals import INT, V, as_ref, v_int, as_int
    return v_int(as_int(V(st.read(as_ref(it), '$it_pos'), INT)))


@spec('iter_over')
def iter_over(ex, st, it, s):
    from pyvc.vals import as_ref, v_bool
    return v_bool(st.read(as_ref(it), '$it_set') == s.t)


@spec('has_class')
def has_class(ex, st, x, cls):
    import z3
    from pyvc.vals import Val, v_bool
    name = cls.lit
    ci = ex.repo.find_class(name)
    if ci is None:
        from pyvc.state import Unsupported
        raise Unsupported(f'has_class: unknown class {name}')
    ids = [ex.class_id(c.name) for c in ex.repo.subclasses(ci.name)]
    t = ex.box(st, x)
    return v_bool(z3.And(Val.is_ref(t), z3.Or(*[ex.cls_of(Val.rv(t)) == i for i in ids])))
