"""Spec functions of the C17 value contracts (round 3, agent c17d; contracts/c17d_*.py).

c17d_varval(name)        VARVAL(name): the value of the data column `name` in the current row - an uninterpreted real
                         function of the name (string atom).
c17d_xval(v)             the argument x of a piecewise builder whose `variable` parameter is the NAME of a variable or a
                         Variable node:  VARVAL(v) for a string, c05c_val(v) for a node.
c17d_variable_meaning(v) A-VARIABLE (ASSUMPTION, listed in the evidence): a Variable node has no Python get_value (its value
                         is read from the database row by the compiled engine); the value c05c_val(v) of a node v of class
                         Variable is DEFINED as VARVAL(v.name), the name being read from the heap (the field the real
                         constructor Elementary.__init__ stores).  Used as a hint at the return points of the builders
                         that create the Variable node themselves (`Variable(name)`); VARVAL is constrained nowhere else.
"""
import z3

from pyvc.specs_runtime import spec
from pyvc.state import Unsupported
from pyvc.vals import V, Val, as_atom, as_real, uf, v_bool, v_real, I, R

from specs.c05c_specs import value_of


def _varval(atom):
    return uf('c17d_VARVAL', I, R)(atom)


@spec('c17d_varval')
def c17d_varval(ex, st, name):
    if name.kind == 'str':
        return v_real(_varval(as_atom(name)))
    if name.kind in ('any', 'opt'):
        return v_real(_varval(Val.sv(name.t)))
    raise Unsupported(f'c17d_varval of a {name.kind}')


@spec('c17d_xval')
def c17d_xval(ex, st, v):
    if v.kind == 'str':
        return v_real(_varval(as_atom(v)))
    if v.kind == 'ref':
        return value_of(ex, st, v)
    if v.kind in ('any', 'opt'):
        val = value_of(ex, st, v)
        return v_real(z3.If(Val.is_s(v.t), _varval(Val.sv(v.t)), as_real(val)))
    raise Unsupported(f'c17d_xval of a {v.kind}')


@spec('c17d_variable_meaning')
def c17d_variable_meaning(ex, st, v):
    if v.kind not in ('ref', 'any', 'opt'):
        return v_bool(True)
    t = v.t
    r = Val.rv(t)
    is_var = z3.And(Val.is_ref(t), ex.cls_of(r) == ex.class_id('Variable'))
    name = st.read(r, 'name')
    val = value_of(ex, st, v)
    fact = z3.Implies(z3.And(is_var, Val.is_s(name)), as_real(val) == _varval(Val.sv(name)))
    ex.ctx.note('ASSUMED A-VARIABLE: the value of a Variable node is VARVAL(its name), the value of that data column in the current '
                'row (Variable has no Python get_value; specs/c17d_specs.py)')
    st.assume(fact)
    return v_bool(True)
