"""ENGINE-SPEC lexer (cythonbiogeme bioString.cc / bioFormula.cc) applied symbolically to the
signature lines built by get_signature.

A line is a string term built from literals, f-string applications fmt!<shape>(holes) and
str_cat; it is decoded back into a token list (literal text / holes).  The engine reads
    type   = text between '<' and '>'          id    = text between '{' and '}'
    name   = text between the two '"'          status= text between '[' and ']'
    count  = text between '(' and ')'          items = split(line, ',')
A-STR-TOK: holes are opaque tokens that contain none of the delimiter characters (numbers by
construction; names by the explicit precondition of the callers)."""
import z3

from pyvc import lib
from pyvc import vals as VV
from pyvc.specs_runtime import spec
from pyvc.state import Unsupported
from pyvc.vals import ANY, INT, STR, V, Val, v_int, v_str

HOLE = '\x00'


def decode(term) -> list:
    """token list of a string-atom term: str | ('hole', z3 Val term, conv, spec)"""
    t = z3.simplify(term)
    if z3.is_app(t) and t.decl().eq(Val.s):
        t = t.arg(0)
    if z3.is_app(t) and t.decl().name() == 'sv':
        inner = z3.simplify(t.arg(0))
        if z3.is_app(inner) and inner.decl().eq(Val.s):
            t = inner.arg(0)
        else:
            return [('hole', inner, '', '')]
    name = t.decl().name() if z3.is_app(t) else ''
    if z3.is_const(t) and name.startswith('lit!'):
        for lit, at in VV.ATOMS.table.items():
            if at.eq(t):
                return [lit]
    if name == 'str_cat':
        return decode(t.arg(0)) + decode(t.arg(1))
    if name in lib.FMT_SHAPES:
        out, k = [], 0
        for p in lib.FMT_SHAPES[name]:
            if isinstance(p, str):
                out.append(p)
            else:
                out.append(('hole', t.arg(k), p[1], p[2]))
                k += 1
        return out
    if name == 'str_of':
        return [('hole', t.arg(0), '!s', '')]
    if t.sort() == Val:
        import os
        if os.environ.get('PYVC_TRACE'):
            print('ENGINE decode: opaque line term', t.sexpr()[:1500])
        return [('hole', t, '', '')]
    return [('hole', Val.s(t), '', '')]


def flatten(tokens):
    text, holes = '', []
    for tk in tokens:
        if isinstance(tk, str):
            text += tk
        else:
            text += f'{HOLE}{len(holes)}{HOLE}'
            holes.append(tk)
    return text, holes


def between(text, op, cl):
    # extractParentheses: characters between quotes are blanked first (unless extracting quotes)
    s = text
    if op != '"':
        out, inq = [], False
        for ch in s:
            if ch == '"':
                inq = not inq
                out.append(ch)
            else:
                out.append(' ' if inq else ch)
        s = ''.join(out)
    i = s.find(op)
    if i < 0:
        raise Unsupported(f'ENGINE lexer: no {op!r} in the line')
    if op == cl:
        j = s.rfind(op)
        return text[i + 1:j]
    level = 0
    for k in range(i + 1, len(s)):
        if s[k] == op:
            level += 1
        elif s[k] == cl:
            if level == 0:
                return text[i + 1:k]
            level -= 1
    raise Unsupported(f'ENGINE lexer: no closing {cl!r}')


def piece_to_v(piece: str, holes) -> V:
    """A lexed piece: pure literal -> str literal (or int when numeric); exactly one hole -> its value."""
    if HOLE not in piece:
        txt = piece
        try:
            return v_int(int(txt))
        except ValueError:
            return v_str(txt)
    parts = piece.split(HOLE)
    if len(parts) == 3 and parts[0] == '' and parts[2] == '':
        h = holes[int(parts[1])]
        if h[2] or h[3]:
            raise Unsupported('ENGINE lexer: formatted hole')
        return V(h[1], ANY)
    raise Unsupported(f'ENGINE lexer: piece mixes literals and values: {piece!r}')


def _line(ex, st, line: V):
    if line.kind == 'py':
        raise Unsupported('engine_*: not a string')
    tokens = decode(line.t)
    return flatten(tokens)


@spec('engine_field')
def engine_field(ex, st, line, what):
    text, holes = _line(ex, st, line)
    op, cl = {'type': ('<', '>'), 'id': ('{', '}'), 'name': ('"', '"'), 'status': ('[', ']'), 'count': ('(', ')')}[what.lit]
    return piece_to_v(between(text, op, cl), holes)


@spec('engine_item')
def engine_item(ex, st, line, k):
    text, holes = _line(ex, st, line)
    items = text.split(',')
    if k.lit is None or not (0 <= k.lit < len(items)):
        raise Unsupported(f'engine_item: no item {k.lit} in a line of {len(items)} items')
    return piece_to_v(items[k.lit], holes)


@spec('engine_nitems')
def engine_nitems(ex, st, line):
    text, holes = _line(ex, st, line)
    return v_int(len(text.split(',')))
