"""Spec functions of the cross-nested builder semantics (C05 round 3, agent c05d; contracts/c05d_*.py).

c05d_iter_elem(p)          the p-th element of the set iterated by the current `for x in <set>` loop (the enumeration term of
                           the loop's own view; recorded by pyvc/libext/c05d_ext.py): lets a loop invariant speak about the
                           elements already visited.
c05d_cnsum(m, util, av)    DEFINITION: the inner sum of the cross-nested generating function of nest m,
                               sum over the keys j of m.dict_of_alpha (insertion order) of [av_j *] alpha_mj ** mu_m * exp(mu_m * V_j)
                           in the exact algebraic form the code builds, read in the ENTRY state (same scheme as c05c_nestsum).
"""
import ast

import z3

from pyvc.specs_runtime import spec
from pyvc.state import Unsupported
from pyvc.vals import V, Val, as_int, as_real, v_real

_D = 'm.dict_of_alpha'
_KEY = f'keys_of({_D})[p]'
_A = f'c05c_val({_D}[{_KEY}])'
_MU = 'c05c_val(m.nest_param)'
CNSUM_FULL = (f"sum_range(lambda p: {_A} ** {_MU} * app('numpy.exp', {_MU} * c05c_val(util[{_KEY}])), 0, len({_D}))")
CNSUM_AV = (f"sum_range(lambda p: c05c_val(typed(av, 'dict[int, Expression]')[{_KEY}]) * {_A} ** {_MU} * "
            f"app('numpy.exp', {_MU} * c05c_val(util[{_KEY}])), 0, len({_D}))")


@spec('c05d_iter_elem')
def c05d_iter_elem(ex, st, p):
    from pyvc.libext.c05d_ext import LAST_SET
    view = LAST_SET.get('view')
    if view is None:
        raise Unsupported('c05d_iter_elem: no set is being iterated')
    st.ghost[('c05d-set-loop',)] = True       # the path that ran the loop over a set is kept apart at joins (no merge)
    return view.get(st, as_int(p))


@spec('c05d_cnsum')
def c05d_cnsum(ex, st, m, util, av):
    args = [m.t, util.t, av.t if av.t is not None else Val.none]
    t = z3.Function('c05d_cnsum', Val, Val, Val, z3.RealSort())(*args)
    res = v_real(t)
    if st.bound:
        return res
    mark = ('c05d-cnsum', t.get_id())
    if mark in st.ghost:
        return res
    st.ghost[mark] = True
    saved = st.locals
    st.locals = dict(saved)
    st.locals.update({'m': m, 'util': util, 'av': av})
    st.spec += 1
    st.use_old += 1
    try:
        if av.kind == 'none':
            d = ex.ev(st, ast.parse(CNSUM_FULL, mode='eval').body)
            st.pc.append(t == as_real(d))
        else:
            d1 = ex.ev(st, ast.parse(CNSUM_AV, mode='eval').body)
            if av.kind == 'opt':
                d2 = ex.ev(st, ast.parse(CNSUM_FULL, mode='eval').body)
                st.pc.append(t == z3.If(Val.is_none(av.t), as_real(d2), as_real(d1)))
            else:
                st.pc.append(t == as_real(d1))
    finally:
        st.use_old -= 1
        st.spec -= 1
        st.locals = saved
    return res


@spec('c05d_new')
def c05d_new(ex, st, x):
    """the object was allocated by the function under proof (its reference is not one of the entry heap)"""
    from pyvc.vals import as_ref, v_bool
    if x.kind not in ('list', 'dict', 'set', 'ref'):
        raise Unsupported(f'c05d_new of a {x.kind}')
    return v_bool(as_ref(x) >= st.alloc0)


@spec('c05d_other')
def c05d_other(ex, st, x, y):
    """x and y are different objects (references differ); for containers of different kinds, which `is not` does not compare"""
    from pyvc.vals import as_ref, v_bool
    for v in (x, y):
        if v.kind not in ('list', 'dict', 'set', 'ref'):
            raise Unsupported(f'c05d_other of a {v.kind}')
    return v_bool(as_ref(x) != as_ref(y))


@spec('c05d_entry_kept')
def c05d_entry_kept(ex, st):
    """FRAME as a loop invariant: no container that existed at entry (reference < alloc0) has been written so far - its
    length, elements, key set and mapping are those of the entry heap.  (The frame obligations of `modifies=[]` ask exactly this
    at the return points; inside loops whose writes go to lists read out of a local dictionary the core's havoc otherwise
    forgets the entry containers.)"""
    from pyvc.vals import fresh_name, v_bool
    r = z3.Int(fresh_name('ek'))
    fs = []
    for f in ('$len', '$elems', '$dom', '$map'):
        cur = st.field(f)
        st.use_old += 1
        try:
            old = st.field(f)
        finally:
            st.use_old -= 1
        if cur.eq(old):
            continue
        body = z3.Implies(z3.And(r >= 0, r < st.alloc0), z3.Select(cur, r) == z3.Select(old, r))
        try:
            if '(lambda ' in cur.sexpr() or '(ite ' in cur.sexpr():
                raise z3.Z3Exception('no pattern over a lambda')
            fs.append(z3.ForAll([r], body, patterns=[z3.Select(cur, r)]))
        except z3.Z3Exception:
            fs.append(z3.ForAll([r], body))
    return v_bool(z3.And(*fs) if fs else z3.BoolVal(True))
