"""Spec functions of the C03 round-3 contracts (tag m4)."""
import z3

from pyvc.specs_runtime import spec
from pyvc.vals import Val, uf, v_bool


@spec('c03m4_told')
def c03m4_told(ex, st, expr, betas):
    """EVENT predicate of the virtual descent `expr.change_init_values(betas)`: an uninterpreted relation between a
    formula and a dictionary.  It is established ONLY by the (assumed) postcondition of the abstract contract of
    Expression.change_init_values, i.e. by an actual call `expr.change_init_values(betas)`; nothing else can prove it, so
    a postcondition `c03m4_told(self.log_like, betas)` is a must-call obligation.  Reading: every Beta below `expr` has
    been shown `betas` (leaf: Beta.change_init_values, proved by name; inner node: the body of
    Expression.change_init_values, proved to reach every child)."""
    f = uf('c03m4_told', Val, Val, z3.BoolSort())
    return v_bool(f(ex.box(st, expr), ex.box(st, betas)))


@spec('c03m4_reports')
def c03m4_reports(ex, st, expr, the_type, name):
    """the (mathematical) relation "formula `expr` contains an elementary expression of kind `the_type` called `name`":
    uninterpreted; the abstract contract of Expression.dict_of_elementary_expression says that the keys of the returned
    dictionary are exactly the names in this relation (leaf: Beta.dict_of_elementary_expression, proved:
    reported_iff_kind_matches_status)."""
    f = uf('c03m4_reports', Val, Val, Val, z3.BoolSort())
    return v_bool(f(ex.box(st, expr), ex.box(st, the_type), ex.box(st, name)))
