"""Spec functions of the C03 round-3 contracts (tag m4)."""
import z3

from pyvc.specs_runtime import spec
from pyvc.vals import Val, uf, v_bool


@spec('c03m4_told')
def c03m4_told(ex, st, expr, betas):
    """EVENT predicate of the virtual descent `expr.change_init_values(betas)`: an uninterpreted relation between a
    formula and a dictionary.  It is established ONLY by the (assumed) postcondition of the abstract contract of
    Expression.change_init_values, i.e. by an actual call `expr.change_init_values(betas)`; nothing else can prove it, so
    a postcondition `c03m4_told(self.log_like, betas)` is a must-call obligation.  Reading: every Beta below `expr` has
    been shown `betas` (leaf: Beta.change_init_values, proved by name; inner node: the body of
    Expression.change_init_values, proved to reach every child)."""
    f = uf('c03m4_told', Val, Val, z3.BoolSort())
    return v_bool(f(ex.box(st, expr), ex.box(st, betas)))


@spec('c03m4_reports')
def c03m4_reports(ex, st, expr, the_type, name):
    """the (mathematical) relation "formula `expr` contains an elementary expression of kind `the_type` called `name`":
    uninterpreted; the abstract contract of Expression.dict_of_elementary_expression says that the keys of the returned
    dictionary are exactly the names in this relation (leaf: Beta.dict_of_elementary_expression, proved:
    reported_iff_kind_matches_status)."""
    f = uf('c03m4_reports', Val, Val, Val, z3.BoolSort())
    return v_bool(f(ex.box(st, expr), ex.box(st, the_type), ex.box(st, name)))


@spec('c03m4_reported_upto')
def c03m4_reported_upto(ex, st, lst, the_type, k, name):
    """U(lst, kind, k, name): "one of the first k formulas of the list `lst` (its content at ENTRY of the function) reports
    `name` for `kind`", i.e. exists q in [0, k): c03m4_reports(lst[q], kind, name) - written without a quantifier, by the
    DEFINING primitive recursion on k (a conservative extension: total, one equation per constructor of the naturals)

        U(l, t, 0, x)     = False
        U(l, t, k + 1, x) = U(l, t, k, x) or c03m4_reports(l[k], t, x)          (k >= 0)

    so that loop invariants and postconditions that say "only reported names are collected" stay in the forall fragment
    (the forall-exists form is not decided by z3 / cvc5 on IdManager.prepare).  The two equations are added to the path
    condition once per state, together with their instance at the given arguments."""
    from pyvc.vals import as_int, as_ref, fresh_name
    I = z3.IntSort()
    U = uf('c03m4_upto', I, Val, I, Val, z3.BoolSort())
    R = uf('c03m4_reports', Val, Val, Val, z3.BoolSort())
    elems0 = st.heap0.get('$elems')
    if elems0 is None:
        elems0 = z3.Const('H0!$elems', st.field('$elems').sort())
    L, T, K, X = as_ref(lst), ex.box(st, the_type), as_int(k), ex.box(st, name)
    if ('c03m4_upto',) not in st.ghost:
        st.ghost[('c03m4_upto',)] = True
        l, q = z3.Int(fresh_name('l')), z3.Int(fresh_name('q'))
        t, x = z3.Const(fresh_name('t'), Val), z3.Const(fresh_name('x'), Val)
        st.pc.append(z3.ForAll([l, t, x], z3.Not(U(l, t, 0, x)), patterns=[U(l, t, 0, x)]))
        st.pc.append(z3.ForAll([l, t, q, x], z3.Implies(q >= 0, U(l, t, q + 1, x) == z3.Or(U(l, t, q, x), R(z3.Select(z3.Select(elems0, l), q), t, x))),
                               patterns=[U(l, t, q + 1, x)]))
        ex.ctx.note('DEFINITION c03m4_reported_upto: primitive recursion on the number of formulas (conservative)')
    st.assume(z3.Implies(K == 0, z3.Not(U(L, T, K, X))))
    st.assume(z3.Implies(K >= 1, U(L, T, K, X) == z3.Or(U(L, T, K - 1, X), R(z3.Select(z3.Select(elems0, L), K - 1), T, X))))
    return v_bool(U(L, T, K, X))
