"""Spec functions of the deductive builder semantics (C05, round 2; contracts/c05c_*.py).

c05c_val(e)   the VALUE of the expression tree `e`: the term F!Expression.get_value(e) of the abstract (pure) contract of
              the virtual method Expression.get_value (the induction hypothesis of C01).  DISPATCH LINK: when the static
              class K of `e` is known and K.get_value has a contract of its own in this run (verified here, same text as
              C01), that contract is instantiated at `e` in logical form,
                    requires(e) and not raises(e)  ->  ensures(e)[result := c05c_val(e)],
              i.e. the value of a node of dynamic class K is what K.get_value returns.  Nothing is assumed when a
              requires clause fails or the method raises.
c05c_num(x)   numeric meaning of an `ExpressionOrNumeric` operand: the number itself (bool: 1/0), else c05c_val(x).

ASSUMPTION (listed in props/C05.py): expression nodes are immutable once built (the value of a node is a function of
the node), which is what makes F!get_value a function of the reference only.  The builders under contract are proved
not to write any pre-existing object (frame obligations, modifies=[]).
"""
import ast

import z3

from pyvc.specs_runtime import spec
from pyvc.state import Unsupported
from pyvc.vals import REAL, TRef, V, Val, as_real, v_real

ABSTRACT = 'biogeme.expressions.base_expressions.Expression.get_value'


def _abstract_value(ex, st, e: V) -> V:
    con = ex.ctx.registry.get(ABSTRACT)
    if con is None or not con.pure:
        raise Unsupported('c05c_val needs the abstract pure contract of Expression.get_value')
    key = ex.repo.class_key(ex.repo.find_class('Expression', 'biogeme.expressions.base_expressions'))
    st.spec += 1
    try:
        r = ex.apply_contract(st, con, [V(e.t, TRef(key))], {}, None)
    finally:
        st.spec -= 1
    return r


def _spec_in(ex, st, fi, src, env):
    """Evaluate a contract clause of function `fi` (name lookup in its module) with parameters `env`."""
    from pyvc.symexec import Frame
    fr = Frame(ex.repo.modules[fi.module], fi, depth=ex.frame.depth + 1)
    ex.frames.append(fr)
    saved = st.locals
    st.locals = dict(env)
    try:
        return ex.spec_bool(st, src, {})
    finally:
        st.locals = saved
        ex.frames.pop()


def value_of(ex, st, e: V) -> V:
    if e.kind == 'none':
        # the value of `None` is no number at all: an unconstrained real, so that no equation about it can be proved
        # (a builder that returns None must FAIL its value clause, not leave the verifier's subset)
        from pyvc.vals import fresh_name
        return v_real(z3.Real(fresh_name('valnone')))
    if e.kind not in ('ref', 'any', 'opt'):
        raise Unsupported(f'c05c_val of a {e.kind}')
    res = _abstract_value(ex, st, e)
    cls = e.ty.cls if e.kind == 'ref' else None
    if not cls:
        return res
    con = ex.ctx.registry.lookup_method(ex.repo, cls, 'get_value')
    if con is None or con.qualname == ABSTRACT or con.pure:
        return res
    heap = st.heap0 if st.use_old else st.heap
    mark = ('c05c-link', e.t.get_id(), con.qualname, tuple(sorted((f, a.get_id()) for f, a in heap.items())),
            tuple(v.get_id() for v, _ in st.bound))
    if mark in st.ghost:
        return res
    st.ghost[mark] = True
    fi = ex.repo.function(con.qualname)
    env = {'self': e}
    req = [_spec_in(ex, st, fi, s, env) for s in con.requires.values()]
    rs = [_spec_in(ex, st, fi, s, env) for s in con.raises.values()]
    env2 = dict(env)
    env2['result'] = res
    ens = [_spec_in(ex, st, fi, s, env2) for s in con.ensures.values()]
    ex.ctx.note(f'DISPATCH LINK: value of a node of class {cls} = result of {con.qualname} (its contract, instantiated at the node)')
    st.assume(z3.Implies(z3.And(*req, *[z3.Not(c) for c in rs]), z3.And(*ens)))
    return res


@spec('c05c_val')
def c05c_val(ex, st, e):
    return value_of(ex, st, e)


def num_of(ex, st, x: V) -> V:
    k = x.kind
    if k in ('int', 'real', 'bool'):
        if x.lit is not None:
            return v_real(float(x.lit))
        return v_real(as_real(x))
    if k == 'ref':
        return value_of(ex, st, x)
    if k in ('any', 'opt'):
        t = x.t
        va = _abstract_value(ex, st, x)
        return v_real(z3.If(Val.is_num(t), Val.nv(t), z3.If(Val.is_b(t), z3.If(Val.bv(t), z3.RealVal(1), z3.RealVal(0)), as_real(va))))
    raise Unsupported(f'c05c_num of a {k}')


@spec('c05c_num')
def c05c_num(ex, st, x):
    return num_of(ex, st, x)


@spec('c05c_dict_wf')
def c05c_dict_wf(ex, st, d):
    """Representation invariant of a Python dict (its key list enumerates its domain once, insertion order) for an
    OPTIONAL dict parameter: the core assumes it for parameters of type dict only.  Always true of a Python dict."""
    from pyvc.vals import v_bool
    if d.kind == 'dict':
        st.assume_wf_dict(d)
        return v_bool(True)
    if d.kind == 'none':
        return v_bool(True)
    if d.kind != 'opt' or d.ty.args[0].kind != 'dict':
        raise Unsupported('c05c_dict_wf of a non-dict')
    inner = V(d.t, d.ty.args[0])
    s2 = st.copy()
    s2.pc = []
    s2.guards, s2.bound = [], []
    s2.assume_wf_dict(inner)
    st.heap0.update({k: v for k, v in s2.heap0.items() if k not in st.heap0})
    for k, v in s2.heap.items():
        st.heap.setdefault(k, v)
    return v_bool(z3.Implies(z3.Not(Val.is_none(d.t)), z3.And(*s2.pc)))


@spec('c05c_inf')
def c05c_inf(ex, st):
    """numpy.inf (the engine's real constant INF), usable in modules that do not import numpy"""
    return v_real(z3.Real('INF'))


@spec('c05c_cut')
def c05c_cut(ex, st, label, lam):
    """CUT rule inside a postcondition of the function under verification: c05c_cut('name', lambda: fact).  `fact`
    becomes a proof obligation of its own (kind `lemma`, proved from the current path) and is then available to the
    rest of the clause.  At call sites (the clause is being assumed, not proved) nothing is evaluated."""
    from pyvc.vals import v_bool
    proving = getattr(ex, 'c05c_proving', 0) > 0 or getattr(ex, 'c05c_hint', 0) > 0
    if proving and ex.frame.depth == 0 and not st.bound and isinstance(label.lit, str):
        f = ex.truth(st, ex.call(st, lam, [], {}, None))
        ex.ctx.add_oblig(st, 'lemma', label.lit, f)
        st.assume(f)
    return v_bool(True)


# ------------------------------------------------------------------------------------------------ nested logit
NEST_SUM_TEXT = ("sum_range(lambda p: ite(c05c_val(typed(av, 'dict[int, Expression]')[m.list_of_alternatives[p]]) != 0.0, "
                 "app('numpy.exp', c05c_val(m.nest_param) * c05c_val(util[m.list_of_alternatives[p]])), 0.0), "
                 "0, len(m.list_of_alternatives))")
NEST_SUM_TEXT_FULL = ("sum_range(lambda p: app('numpy.exp', c05c_val(m.nest_param) * c05c_val(util[m.list_of_alternatives[p]])), "
                      "0, len(m.list_of_alternatives))")


@spec('c05c_nestsum')
def c05c_nestsum(ex, st, m, util, av):
    """DEFINITION  c05c_nestsum(m, util, av) = sum over the alternatives j of nest m (in list order, repetitions counted)
    of  [av_j != 0] * exp(mu_m * V_j)   (all alternatives when av is None): the inner sum of the nested-logit generating
    function, read in the ENTRY state of the function under verification.  It is an uninterpreted real function of the
    three objects; whenever it is applied outside a binder its definition (a sum_range over the entry heap) is unfolded.  Under a
    binder (for all nests q ...) only the function symbol appears: the core's sum_range has no sound encoding for a sum
    whose terms depend on an enclosing bound variable."""
    from pyvc.state import occurs
    args = [m.t, util.t, av.t if av.t is not None else Val.none]
    f = z3.Function('c05c_nestsum', Val, Val, Val, z3.RealSort())
    t = f(*args)
    res = v_real(t)
    if st.bound:
        return res
    mark = ('c05c-nestsum', t.get_id())
    if mark in st.ghost:
        return res
    st.ghost[mark] = True
    saved = st.locals
    st.locals = dict(saved)
    st.locals.update({'m': m, 'util': util, 'av': av})
    st.spec += 1
    st.use_old += 1            # the definition reads the ENTRY heap: a fixed function of the three objects
    try:
        if av.kind == 'none':
            d = ex.ev(st, ast.parse(NEST_SUM_TEXT_FULL, mode='eval').body)
            st.pc.append(t == as_real(d))
        else:
            d1 = ex.ev(st, ast.parse(NEST_SUM_TEXT, mode='eval').body)
            if av.kind == 'opt':
                d2 = ex.ev(st, ast.parse(NEST_SUM_TEXT_FULL, mode='eval').body)
                st.pc.append(t == z3.If(Val.is_none(av.t), as_real(d2), as_real(d1)))
            else:
                st.pc.append(t == as_real(d1))
    finally:
        st.use_old -= 1
        st.spec -= 1
        st.locals = saved
    return res


@spec('c05c_pos')
def c05c_pos(ex, st, x):
    """Position of a loop variable in the sequence being iterated, read off its symbolic term (`for m in seq` binds
    m = seq[k]): lets the invariant of an inner loop speak about the iteration count of the enclosing loop."""
    from pyvc.vals import v_int
    t = x.t
    if z3.is_app(t) and t.decl().kind() == z3.Z3_OP_SELECT and t.arg(1).sort() == z3.IntSort():
        return v_int(t.arg(1))
    raise Unsupported('c05c_pos: the value is not an element read from a sequence')


# ------------------------------------------------------------------------------------------------ closed form of lnG_i
def _eval_text(ex, st, text, env):
    saved = st.locals
    st.locals = dict(saved)
    st.locals.update(env)
    st.spec += 1
    try:
        return ex.ev(st, ast.parse(text, mode='eval').body)
    finally:
        st.spec -= 1
        st.locals = saved


def _key_real(x: V):
    return as_real(x) if x.kind in ('int', 'real', 'bool') else Val.nv(x.t)


def _nest_uf(name, rng):
    return z3.Function(name, Val, z3.RealSort(), rng)


@spec('c05c_innest')
def c05c_innest(ex, st, nests, x):
    from pyvc.vals import v_bool
    return v_bool(_nest_uf('c05c_innest', z3.BoolSort())(nests.t, _key_real(x)))


@spec('c05c_nestof')
def c05c_nestof(ex, st, nests, x):
    from pyvc.vals import v_int
    t = _nest_uf('c05c_nestof', z3.IntSort())(nests.t, _key_real(x))
    st.mark_nonneg(t)              # the choice functions are non-negative everywhere (axiom 2 below)
    return v_int(t)


@spec('c05c_posof')
def c05c_posof(ex, st, nests, x):
    from pyvc.vals import v_int
    t = _nest_uf('c05c_posof', z3.IntSort())(nests.t, _key_real(x))
    st.mark_nonneg(t)
    return v_int(t)


_T = 'nests.tuple_of_nests'
PARTITION_TEXT = (
    f"forall(lambda a: forall(lambda b: implies(a != b, forall(lambda p: forall(lambda r: "
    f"{_T}[a].list_of_alternatives[p] != {_T}[b].list_of_alternatives[r], 0, len({_T}[b].list_of_alternatives)), "
    f"0, len({_T}[a].list_of_alternatives))), 0, len({_T})), 0, len({_T})) and "
    f"implies(nests.alone is not None, forall(lambda a: forall(lambda p: "
    f"{_T}[a].list_of_alternatives[p] not in typed(nests.alone, 'set[int]'), 0, len({_T}[a].list_of_alternatives)), 0, len({_T})))")


@spec('c05c_partition')
def c05c_partition(ex, st, nests):
    """DEFINITION  c05c_partition(nests): the nests are pairwise disjoint (position-wise) and none of their alternatives is
    in `nests.alone`, read in the ENTRY state.  A propositional symbol of the nests object whose definition is unfolded
    once per state (outside binders)."""
    from pyvc.vals import v_bool
    p = z3.Function('c05c_partition', Val, z3.BoolSort())(nests.t)
    mark = ('c05c-partition', nests.t.get_id())
    if not st.bound and mark not in st.ghost:
        st.ghost[mark] = True
        st.use_old += 1
        try:
            d = ex.truth(st, _eval_text(ex, st, PARTITION_TEXT, {'nests': nests}))
        finally:
            st.use_old -= 1
        st.pc.append(p == d)
    return v_bool(p)


def LNG_G(nest: str, alt: str) -> str:
    return (f"((c05c_val({nest}.nest_param) - 1.0) * c05c_val(util[{alt}]) + "
            f"(1.0 / c05c_val({nest}.nest_param) - 1.0) * app('numpy.log', c05c_nestsum({nest}, util, availability)))")


_NOF = 'c05c_nestof(nests, x)'
_POF = 'c05c_posof(nests, x)'
LNG_AXIOMS = [
    # every alternative of a nest is `in a nest`
    f"forall(lambda q: forall(lambda p: c05c_innest(nests, {_T}[q].list_of_alternatives[p]), 0, len({_T}[q].list_of_alternatives)), 0, len({_T}))",
    # an alternative `in a nest` is at position posof(x) of nest nestof(x)  (choice functions)
    f"forall(lambda x: 0 <= {_NOF} and 0 <= {_POF} and implies(c05c_innest(nests, x), {_NOF} < len({_T}) and "
    f"{_POF} < len({_T}[{_NOF}].list_of_alternatives) and {_T}[{_NOF}].list_of_alternatives[{_POF}] == x), ty='int')",
    # ln G_x: the nested-logit term of its nest, 0 outside every nest
    f"forall(lambda x: c05c_lng(nests, util, availability, x) == ite(c05c_innest(nests, x), {LNG_G(_T + '[' + _NOF + ']', 'x')}, 0.0), ty='int')",
]


@spec('c05c_lng')
def c05c_lng(ex, st, nests, util, av, x):
    """DEFINITION  c05c_lng(nests, util, av, i) = ln dG/dy_i of the nested logit as the builders publish it:
         (mu_m - 1) V_i + (1/mu_m - 1) log c05c_nestsum(nest m, util, av)   when i is an alternative of a nest m,
         0                                                                  when i is in no nest,
    read in the ENTRY state.  `in a nest`, the nest and the position are the symbols c05c_innest / c05c_nestof / c05c_posof
    with their defining axioms (choice functions: a conservative extension; when nests overlap nestof picks one of them).
    This function only builds the term; the three defining axioms are the value of c05c_lng_definition(nests, util, av)
    and are brought into a proof explicitly (c05c_cut_with): as standing hypotheses they make the solver diverge."""
    t = z3.Function('c05c_lng', Val, Val, Val, z3.RealSort(), z3.RealSort())(
        nests.t, util.t, av.t if av.t is not None else Val.none, _key_real(x))
    return v_real(t)


@spec('c05c_lng_definition')
def c05c_lng_definition(ex, st, nests, util, av):
    from pyvc.vals import v_bool
    saved_bound, saved_guards = st.bound, st.guards
    st.bound, st.guards = [], []
    st.use_old += 1
    try:
        fs = [ex.truth(st, _eval_text(ex, st, txt, {'nests': nests, 'util': util, 'availability': av})) for txt in LNG_AXIOMS]
    finally:
        st.use_old -= 1
        st.bound, st.guards = saved_bound, saved_guards
    return v_bool(z3.And(*fs))


@spec('c05c_cut_with')
def c05c_cut_with(ex, st, label, defs, lam):
    """c05c_cut_with('name', lambda: definitions, lambda: fact): like c05c_cut, but `fact` is proved from the current path
    TOGETHER WITH the definitional axioms `definitions` of spec functions (a conservative extension), and then `fact` alone
    is kept: the definitions do not stay among the hypotheses."""
    from pyvc.vals import v_bool
    proving = getattr(ex, 'c05c_proving', 0) > 0 or getattr(ex, 'c05c_hint', 0) > 0
    if proving and ex.frame.depth == 0 and not st.bound and isinstance(label.lit, str):
        s2 = st.copy()
        d = ex.truth(s2, ex.call(s2, defs, [], {}, None))
        s2.pc.append(d)
        f = ex.truth(s2, ex.call(s2, lam, [], {}, None))
        ex.ctx.add_oblig(s2, 'lemma', label.lit, f)
        f2 = ex.truth(st, ex.call(st, lam, [], {}, None))
        st.assume(f2)
    return v_bool(True)
